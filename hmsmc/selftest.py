"""setup_cmd: imports pyhms from /repo's working tree and audits determinism of one world."""
import sys


def selftest():
    import pyhms

    from . import REPO
    from .explorer import Execution

    if not pyhms.__file__.startswith(REPO):
        print(f"HARNESS-ERROR: pyhms imported from {pyhms.__file__}, expected {REPO}", file=sys.stderr)
        return 3
    digs = []
    for desc in (
        dict(engines=["SEA", "CMAf"], gens=2, choices="GL", sprout={"kind": "nbc", "L": 2}),
        dict(engines=["DE", "SHADE", "LOC"], gens=1, choices="GLS", sprout={"kind": "scripted", "L": 2}, hib=True),
    ):
        a = Execution(desc, [(3, 1)]).run()
        b = Execution(desc, [(3, 1)]).run()
        if a.status != "ok" or a.observation_digest() != b.observation_digest():
            print(f"HARNESS-ERROR: replay of one schedule diverged ({a.status}, {a.exc})", file=sys.stderr)
            return 3
        digs.append(a.observation_digest())
    print("selftest ok", digs)
    return 0
