"""C20 - reports agree with the tree, and looking at a tree does not change it."""
from __future__ import annotations

from ..explorer import Result, Vacuous
from ..monitors import C20Monitor
from ..runlib import chunks, lifecycle_descs, replay_run, run_descs, run_split_unit, shapes_h1, shapes_h2, shapes_h3_all, shapes_h3_cover, split_units

ID = "C20"
MONITORS = [C20Monitor]
RULE = (
    "every metaepoch boundary of: all 150 height-1/2 engine mixes (+196 / 1960 triples) x objectives {plateau (best exactly 0.0), twofunnel} "
    "x both directions x hibernation, with local conditions that stop demes; and of the scripted lifecycle worlds under all <=1 (quick) / <=2 "
    "(thorough) G/L/S deviations (freshly sprouted, stopped, hibernating demes); at each boundary summary()/tree() are parsed and compared "
    "with the public attributes, and every accessor is called twice with tree digest, recorder size and RNG states compared before/after; "
    "non-trivial = a boundary with >= 2 displayed demes was parsed"
)
ASSUMPTIONS = ["alphabets of DESIGN.md section 4", "report grammar: the line formats documented in DemeTree.tree() / summary()"]
EXPLANATION = "state = canonical tree census at every consult / boundary"


class M(C20Monitor):
    def parse(self, tree, s1, t1, bi):
        super().parse(tree, s1, t1, bi)
        if sum(1 for _, d in tree.all_demes if d.level == 0 or d.metaepoch_count >= 1) >= 2:
            self.x.flag(">=2 displayed demes")


def units(tier, seed):
    s = 1 + seed % 1000
    descs = []
    shapes = shapes_h1() + shapes_h2() + (shapes_h3_cover() if tier == "quick" else shapes_h3_all())
    for k, eng in enumerate(shapes):
        for mx in (False, True):
            descs.append(dict(engines=list(eng), gens=1 + k % 2, maximize=mx, obj=("plateau", "twofunnel", "plateau", "tiny_offset")[k % 4], Mh=4, seed=s, look_mid_step=bool((k + mx) % 2),
                              sprout={"kind": ("simple", "nbc")[(k + mx) % 2], "L": 2}, hib=bool((k // 2) % 2),
                              lsc=[None] + [{"kind": "metaepoch", "m": 1 + k % 2}] * (len(eng) - 1)))
    for k2, eng in enumerate([e for e in shapes_h1() + shapes_h2() if not any(v.startswith("CMA") or v == "LOC" for v in e)][::3]):
        descs.append(dict(engines=list(eng), gens=1 + k2 % 2, maximize=bool(k2 % 2), obj=("nanhalf", "nanhole")[k2 % 2], Mh=3, seed=s, sprout={"kind": ("simple", "nbc")[k2 % 2], "L": 2},
                          hib=bool(k2 % 3 == 0), pop=(6, 10)[k2 % 2]))
    # many leaves (R5S selection only selects when there are more than five)
    for k3, eng in enumerate([("SEA", "DE"), ("DE", "CMAf"), ("LHS", "SEAX"), ("GA", "SHADE")]):
        for mx in (False, True):
            descs.append(dict(engines=list(eng), gens=1, maximize=mx, obj=("twofunnel", "sphere_in")[k3 % 2], Mh=9, seed=s + k3, sprout={"kind": "simple", "L": 3, "far": 0.02},
                              lsc=[None, {"kind": "metaepoch", "m": 1}], look_mid_step=bool(k3 % 2)))
    us = [{"kind": "run", "descs": c} for c in chunks(descs, 12)]
    for mode, desc in lifecycle_descs(tier, seed, objs=("plateau", "twofunnel"), maximize=(False, True)):
        if mode == "bounded":
            us += split_units(desc, min(1 if tier == "quick" else 2, desc.get("max_bound", 9)), "GLS", {"kind": "life"})
    return us


def _nontrivial(x):
    return ">=2 displayed demes" in x.flags


def run_unit(unit):
    if unit["kind"] == "run":
        return run_descs(Result(), ID, unit, unit["descs"], [M], _nontrivial)
    return run_split_unit(ID, unit, [M], _nontrivial)


def finish(res, tier):
    for f, n in (("boundary checked (NaN objective, reduced clauses)", 20), ("looked at the tree mid-step", 200), ("report parsed", 500), ("marker checked", 300), ("marker checked at best==0.0", 20), (">=2 displayed demes", 300)):
        if res.flags[f] < n:
            raise Vacuous(f"coverage flag '{f}' seen only {res.flags[f]} times")
    if res.configs_completed < res.configs:
        raise Vacuous(f"{res.configs - res.configs_completed} configurations without any completed execution")
    return {}


def replay(rep):
    return replay_run([M], rep)
