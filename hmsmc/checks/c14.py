"""C14 - a seeded run is exactly reproducible (twin executions across prior RNG states,
processes and interpreter hash seeds)."""
from __future__ import annotations

import hashlib
import json
import os
import random
import subprocess
import sys

import numpy as np

from ..explorer import Execution, Result, Vacuous
from ..runlib import chunks, minimize_run, shapes_h1, shapes_h2, shapes_h3_cover
from ..world import h64, tree_digest

ID = "C14"
RULE = (
    "worlds = all 150 height-1/2 engine mixes (+196 triples in thorough) x hibernation x both shipped sprout mechanisms, options.random_seed set; "
    "each world is executed in-process from three prior states of the global generators (as left by the previous run; reseeded and advanced; "
    "seeded from OS entropy) and in fresh subprocesses with PYTHONHASHSEED in {0, 1, 4242}; all executions of a world must give identical "
    "digests of the complete tree (ids, classes, start metaepochs, flags, evaluation counts, every genome and fitness, sprout seeds) and of "
    "the objective call log; minimize(seed=...) likewise; non-trivial = a world whose tree has >= 2 demes"
)
ASSUMPTIONS = ["alphabets of DESIGN.md section 4", "same machine / same library builds for all processes"]
EXPLANATION = "self-composition over (prior RNG state, process, hash seed); state = canonical tree census; digests compared across executions"
HASHSEEDS = ["0", "1", "4242"]


def worlds(tier, seed):
    s = 1 + seed % 1000
    out = []
    shapes = shapes_h1() + shapes_h2() + (shapes_h3_cover() if tier == "thorough" else shapes_h3_cover()[::7])
    k = 0
    for eng in shapes:
        for sk in ("simple", "nbc"):
            for hib in (False, True):
                k += 1
                out.append(dict(engines=list(eng), gens=1 + k % 2, Mh=3, seed=s + k % 3, sprout={"kind": sk, "L": 2}, hib=hib, drive="run",
                                obj=("twofunnel", "sphere_in", "plateau")[k % 3], maximize=bool((k // 5) % 2), request_probe=False))
    # trees that share their stop-condition / mechanism objects (as users do with module-level defaults): the result of a
    # seeded run must not depend on which other trees were built from those objects before
    for j in range(6):
        eng = [("SEA", "CMAf"), ("DE", "SEA"), ("SEA", "DE", "CMAf")][j % 3]
        out.append(dict(engines=list(eng), gens=1, Mh=7, seed=s + 11 + j, sprout={"kind": "simple", "L": 2}, hib=bool(j % 2), drive="run", request_probe=False, reuse_components=True,
                        lsc=[None] + [{"kind": "steadiness", "n": 2, "dev": 0.02}] * (len(eng) - 1), obj="twofunnel"))
    # user-composed mechanisms that let several candidates of one deme through in one round (no DemeLimit(1)),
    # with SkipSameSprout / LevelLimit in either order: the order in which siblings are created must be reproducible
    for j, eng in enumerate([("SEA", "DE"), ("DE", "CMAf"), ("SHADE", "SEA"), ("LHS", "DE"), ("SEA", "DE", "CMAf"), ("GA", "SEAX"), ("SOB", "SHADE"), ("MWEA", "DEd")]):
        chain = [{"kind": "skipsame"}, {"kind": "levellimit", "limit": 4}]
        out.append(dict(engines=list(eng), gens=1 + j % 2, Mh=5, seed=s + j, hib=bool(j % 2), drive="run", request_probe=False, pop=(10, 14)[j % 2], obj=("twofunnel", "sphere_in")[j % 2],
                        maximize=bool((j // 2) % 2),
                        sprout={"kind": "composed", "gen": {"kind": "nbc", "factor": (1.0, 0.5)[j % 2], "trunc": 1.0}, "deme_chain": ([], [{"kind": "demelimit", "limit": 3}])[(j // 2) % 2],
                                "tree_chain": chain if j % 3 else chain[::-1], "L": 4}))
    # the largest seeds numpy accepts: the per-deme CMA-ES seed (random_seed + start metaepoch) lands on 2**32 - 1
    for j, eng in enumerate([("SEA", "CMAf"), ("DE", "CMAw"), ("LHS", "CMAs"), ("SHADE", "DE")]):
        out.append(dict(engines=list(eng), gens=1 + j % 2, Mh=3, seed=2**32 - 2, sprout={"kind": "simple", "L": 1}, hib=bool(j % 2), drive="run", request_probe=False, obj="twofunnel"))
    # beyond the small scope (hmsmc/scale.py): populations above 64, dimension 12 and 30
    from ..scale import big_population_worlds, high_dimension_worlds

    for d in big_population_worlds(tier, seed, engines=[("DE", "SHADE"), ("DEd", "SEA"), ("SHADE", "CMAf"), ("MWEA", "DE")])[::2] + high_dimension_worlds(tier, seed):
        out.append(dict(d, drive="run", request_probe=False, Mh=min(d["Mh"], 4)))
    # an evaluation budget that runs out in the middle of a population: WHICH individuals are still evaluated depends on the order of evaluation
    for j, eng in enumerate([("SEA", "DE"), ("DE", "CMAf"), ("LHS", "SHADE"), ("SOB", "SEAX")]):
        out.append(dict(engines=list(eng), gens=1 + j % 2, Mh=4, seed=s + j, sprout={"kind": "simple", "L": 2}, hib=bool(j % 2), drive="run", request_probe=False, obj="twofunnel",
                        cutoff=[(15, 9, 22, 3)[j], (8, 14, 5, 11)[j]], pop=(6, 10)[j % 2]))
    # random_seed = 0 is a seed like any other
    for eng in [e for e in shapes_h2() if e[1].startswith("CMA")] + [("SEA",), ("LHS", "SOB"), ("DE", "SHADE")]:
        k += 1
        out.append(dict(engines=list(eng), gens=1 + k % 2, Mh=3, seed=0, sprout={"kind": ("simple", "nbc")[k % 2], "L": 2}, hib=bool(k % 2), drive="run", request_probe=False))
    # an objective that is undefined (NaN) on part of the box: NaN/NaN comparisons are settled by Python's
    # `random`, which the tree constructor seeds as well
    for eng in [e for e in shapes_h1() + shapes_h2() if not any(v.startswith("CMA") or v == "LOC" for v in e)][:: (1 if tier == "thorough" else 3)]:
        for sk in ("simple", "nbc"):
            k += 1
            out.append(dict(engines=list(eng), gens=1 + k % 2, Mh=3, seed=s + k % 3, sprout={"kind": sk, "L": 2}, hib=bool(k % 2), drive="run", obj=("nanhalf", "nanhole")[k % 2], pop=(6, 10)[(k // 2) % 2],
                            maximize=bool((k // 3) % 2), request_probe=False))
    return out


def key(desc):
    return hashlib.sha1(json.dumps(desc, sort_keys=True).encode()).hexdigest()[:16]


def digest_of(desc, res=None):
    x = Execution(desc, [], []).run()
    if res is not None:
        res.executions += 1
        res.by_bound[0] += 1
        res.status[x.status] += 1
        res.states |= x.states
        res.transitions |= x.transitions
        res.outcomes.add(x.outcome())
    if x.status != "ok":
        return f"{x.status}:{x.exc}", 0
    h = hashlib.sha256()
    h.update(tree_digest(x.tree).encode())
    for lv, xx, v in zip(x.w.log.level, x.w.log.x, x.w.log.v):
        h.update(bytes([lv]))
        h.update(xx.tobytes())
        h.update(np.float64(v).tobytes())
    return h.hexdigest(), len(x.tree.all_demes)


def prior_state(i):
    if i == 1:
        np.random.seed(12345)
        random.seed(999)
        np.random.rand(17)
        random.random()
    elif i == 2:
        np.random.seed(None)
        random.seed()
        np.random.rand(int(np.random.randint(1, 50)))


def units(tier, seed):
    ws = worlds(tier, seed)
    n = len(ws)
    size = 60 if tier == "quick" else 90
    us = [{"kind": "inproc", "lo": i, "hi": min(n, i + 20), "tier": tier, "seed": seed} for i in range(0, n, 20)]
    for hs in HASHSEEDS:
        us += [{"kind": "sub", "hashseed": hs, "lo": i, "hi": min(n, i + size), "tier": tier, "seed": seed} for i in range(0, n, size)]
    us.append({"kind": "minimize", "seed": seed})
    return us


def run_unit(unit):
    res = Result()
    if unit["kind"] == "inproc":
        ws = worlds(unit["tier"], unit["seed"])[unit["lo"] : unit["hi"]]
        pay = {}
        reuse_seen = []
        for desc in ws:
            digs = []
            for st in (0, 1, 2):
                prior_state(st)
                d, nd = digest_of(desc, res)
                digs.append(d)
            res.configs += 1
            if not digs[0].startswith(("exception", "aborted")):
                res.configs_completed += 1
            if nd >= 2:
                res.nontrivial.add(h64(desc))
            if len(set(digs)) != 1:
                rep = {"check": ID, "unit": {"kind": "inproc"}, "desc": desc, "dev": []}
                which = "reseeded+advanced" if digs[0] != digs[1] else "OS entropy"
                res.add_violation(ID, f"C14/prior-state:{'+'.join(desc['engines'])}", f"seeded run of {desc['engines']} depends on the prior state of the global generators ({which})", {"digests": digs}, rep)
            pay[key(desc)] = digs[0]
            if desc.get("reuse_components"):
                reuse_seen.append((desc, digs[0]))
            if len(res.samples) < 2:
                res.samples.append({"desc": desc, "digest": digs[0], "prior_states": ["as left", "reseeded+advanced", "OS entropy"]})
        # second visit, in reverse order, of the worlds that share component objects
        for desc, d0 in reversed(reuse_seen):
            d1, _ = digest_of(desc, res)
            res.flags["world with shared components revisited after other trees"] += 1
            if d1 != d0:
                rep = {"check": ID, "unit": {"kind": "inproc"}, "desc": desc, "dev": []}
                res.add_violation(ID, "C14/depends-on-earlier-trees", f"seeded run of {desc['engines']} gives a different tree after other trees were built from the same stop-condition / mechanism objects", {}, rep)
        res.payload["inproc"] = pay
    elif unit["kind"] == "sub":
        env = dict(os.environ, PYTHONHASHSEED=unit["hashseed"])
        cmd = [sys.executable, "-m", "hmsmc.checks.c14", unit["tier"], str(unit["seed"]), str(unit["lo"]), str(unit["hi"])]
        out = subprocess.run(cmd, env=env, capture_output=True, text=True, cwd=os.path.dirname(os.path.dirname(os.path.dirname(os.path.abspath(__file__)))), timeout=1200)
        if out.returncode != 0:
            raise RuntimeError(f"subprocess failed: {out.stderr[-2000:]}")
        line = [l for l in out.stdout.splitlines() if l.startswith("{")][-1]
        pay = json.loads(line)
        res.executions += len(pay)
        res.by_bound[0] += len(pay)
        res.status["ok"] += len(pay)
        res.payload[f"sub:{unit['hashseed']}"] = pay
        res.extra["subprocess executions"] += len(pay)
    else:
        s = 1 + unit["seed"] % 1000
        for box in ("B_asym", "B_dec"):
            for kw in ({"maxfun": 90}, {"maxiter": 3}, {"maxfun": 150, "seed0": True}):
                outs = []
                kw = dict(kw)
                sd = 0 if kw.pop("seed0", False) else s
                for st in (0, 1, 2):
                    prior_state(st)
                    cf, r = minimize_run(box, "twofunnel", sd, **kw)
                    outs.append((hashlib.sha256(b"".join(cf.calls)).hexdigest(), np.asarray(r.x).tobytes().hex(), r.fun, r.nfev, r.nit))
                    res.executions += 1
                    res.by_bound[0] += 1
                    res.status["ok"] += 1
                res.states.add(h64(("minimize", box, tuple(kw.items()))))
                if len(set(outs)) != 1:
                    rep = {"check": ID, "unit": unit, "desc": {"minimize": kw, "box": box}, "dev": []}
                    res.add_violation(ID, "C14/minimize-prior-state", f"minimize(seed={s}, {kw}) on {box} depends on the prior state of the global generators", {}, rep)
                else:
                    res.flags["minimize reproducible"] += 1
        res.configs += 1
        res.configs_completed += 1
    return res


def finish(res, tier):
    base = res.payload.get("inproc", {})
    if len(base) < 100:
        raise Vacuous("in-process digests missing")
    compared = 0
    for hs in HASHSEEDS:
        sub = res.payload.get(f"sub:{hs}", {})
        if len(sub) != len(base):
            raise Vacuous(f"subprocess digests for PYTHONHASHSEED={hs}: {len(sub)} of {len(base)}")
        for k, d in sub.items():
            compared += 1
            if base.get(k) != d:
                rep = {"check": ID, "unit": {"kind": "sub", "hashseed": hs}, "desc": {"world_key": k}, "dev": []}
                res.add_violation(ID, "C14/process-or-hashseed", f"world {k}: digest in a fresh process with PYTHONHASHSEED={hs} differs from the in-process digest", {}, rep)
    if len(res.nontrivial) < 100:
        raise Vacuous("few worlds with >= 2 demes")
    return {"digest_comparisons_across_processes": compared, "worlds": len(base)}


def replay(rep):
    res = Result()
    if rep["unit"]["kind"] == "inproc":
        run_desc = rep["desc"]
        digs = []
        for st in (0, 1, 2):
            prior_state(st)
            digs.append(digest_of(run_desc)[0])
        if len(set(digs)) != 1:
            res.add_violation(ID, f"C14/prior-state:{'+'.join(run_desc['engines'])}", "depends on prior state", {"digests": digs}, rep)
    return res.violations


if __name__ == "__main__":
    tier, seed, lo, hi = sys.argv[1], int(sys.argv[2]), int(sys.argv[3]), int(sys.argv[4])
    ws = worlds(tier, seed)[lo:hi]
    print(json.dumps({key(d): digest_of(d)[0] for d in ws}))
