"""C18 - hibernation suspends exactly the demes that did not sprout, and never stalls."""
from __future__ import annotations

from ..explorer import Result, Vacuous
from ..monitors import C18Monitor
from ..runlib import lifecycle_descs, replay_run, run_split_unit, split_units

ID = "C18"
MONITORS = [C18Monitor]
RULE = (
    "worlds = scripted-sprout trees and both shipped mechanisms (heights 2-3, intermediate demes exist), hibernation on and off, "
    "metaepoch- and evaluation-based global conditions; complete enumeration of L/S choice vectors for small worlds, deviation bound 2 "
    "(quick) / 3 (thorough) over G/L/S otherwise (no RNG deviations: the progress clause is about ordinary draws); expected flags are "
    "computed from the pass-through sprout probe (P = active non-leaf demes at round begin, S = demes seeds were returned for); "
    "non-trivial = hibernation on and at least one deme was asleep at some boundary"
)
ASSUMPTIONS = [
    "alphabets of DESIGN.md section 4",
    "the hibernation flag is read from deme._hibernating (no public accessor exists; pyhms' own test does the same)",
]
EXPLANATION = "state = canonical tree census including the hibernation flag of every deme"


def units(tier, seed):
    us = []
    b = 2 if tier == "quick" else 3
    for mode, desc in lifecycle_descs(tier, seed):
        if mode == "complete":
            us += split_units(desc, 99, "LS", {"mode": mode})
        else:
            us += split_units(desc, min(b, desc.get("max_bound", b)), "GLS", {"mode": mode})
    s = 1 + seed % 1000
    shapes = [("SEA", "DE", "CMAf"), ("DE", "SEA", "SHADE"), ("SEA", "CMAf"), ("LHS", "SEAX", "DE"), ("GA", "DEd", "LOC")]
    for eng in shapes:
        for sk in ("simple", "nbc"):
            for hib in (False, True):
                for g in ({"kind": "horizon"}, {"kind": "evals", "n": 80}):
                    desc = dict(engines=list(eng), gens=2, Mh=5, hib=hib, seed=s, choices="GL", gsc=g, sprout={"kind": sk, "L": 2})
                    us += split_units(desc, 1 if tier == "quick" else 2, "GL", {"mode": "shipped"})
    # an objective undefined (NaN) on half of the box: ranking the frozen population of a sleeping deme must not evaluate anything
    for k2, eng in enumerate([("SEA", "DE"), ("DE", "SEA", "SHADE"), ("GA", "SEAX"), ("SEA", "DE", "CMAf")]):
        for sk in ("simple", "nbc"):
            desc = dict(engines=list(eng), gens=1, Mh=5, hib=True, seed=s + k2, choices="GL", obj="nanhalf", pop=(6, 10)[k2 % 2], sprout={"kind": sk, "L": 1 + k2 % 2},
                        lsc=[None] + [{"kind": "metaepoch", "m": 2}] * (len(eng) - 1))
            us += split_units(desc, 1, "GL", {"mode": "nan"})
    # several configurations built in ONE process, the 'hibernation' key omitted where it is off:
    # an option of one tree must not leak into the next
    seq = []
    for k, eng in enumerate([("SEA", "DE"), ("DE", "SEA", "CMAf"), ("GA", "SHADE"), ("SEA", "DE")]):
        seq.append(dict(engines=list(eng), gens=1, Mh=4, hib=(k % 2 == 0), hib_option="omit", seed=s, choices="", sprout={"kind": "scripted", "L": 1, "default": 0 if k % 2 else 1}))
    us.append({"kind": "sequence", "descs": seq + seq[::-1]})
    return us


def _nontrivial(x):
    return "flag asleep ok" in x.flags or "sleeper frozen" in x.flags


def run_unit(unit):
    if unit.get("kind") == "sequence":
        from ..runlib import run_descs

        return run_descs(Result(), ID, unit, unit["descs"], MONITORS, _nontrivial)
    return run_split_unit(ID, unit, MONITORS, _nontrivial)


def finish(res, tier):
    if len(res.nontrivial) < 50:
        raise Vacuous(f"only {len(res.nontrivial)} executions with a sleeping deme")
    for f in ("flag awake ok", "progress checked", "round with hibernation on"):
        if res.flags[f] < 10:
            raise Vacuous(f"coverage flag '{f}' seen {res.flags[f]} times")
    if res.configs_completed < res.configs:
        raise Vacuous(f"{res.configs - res.configs_completed} configurations without any completed execution")
    return {}


def replay(rep):
    return replay_run(MONITORS, rep)
