"""C19 - a tree can be snapshotted and restored at any metaepoch boundary.

Every boundary k of every world is a snapshot point: dump, compare live-before / live-after /
loaded digests, RNG states, then run the LOADED tree to the end under invariant monitors.
"""
from __future__ import annotations

import os
import random
import shutil
import tempfile

import numpy as np

from ..explorer import Result, Vacuous
from ..runlib import chunks
from ..world import ROOTS, box_array, canonical_state, h64, make_level, make_lsc, make_objective, make_sprout, tree_digest

from pyhms.config import TreeConfig  # noqa: E402
from pyhms.core.problem import FunctionProblem  # noqa: E402
from pyhms.stop_conditions import MetaepochLimit, SingularProblemEvalLimitReached  # noqa: E402
from pyhms.tree import DemeTree  # noqa: E402

ID = "C19"
RULE = (
    "worlds = engine mixes covering CMA-ES (fixed / warm-started / set_stds), Sobol / LHS sampler state, SHADE memory and archive, local demes, "
    "SEA / DE, objective given as a lambda closure and as a callable object, hibernation on/off, metaepoch- and evaluation-based global "
    "conditions; for EVERY boundary k in 0..M of every world: digest + summary() + stop-condition verdicts of the live tree before pickle_dump == "
    "after == those of the pickle_load'ed tree, numpy / random generator states unchanged by the dump; the loaded tree is then run to the end "
    "with structure, level-limit, exact-accounting (relative to the restored counters) and never-worsening-best checks at each of its "
    "boundaries; non-trivial = a snapshot taken when the tree had >= 2 demes and the loaded tree ran >= 1 further metaepoch"
)
ASSUMPTIONS = [
    "alphabets of DESIGN.md section 4",
    "equal continuation of restored and live tree (one metaepoch, from identical global generator states) is demanded only for trees without CMA-ES levels: a live CMA-ES deme's pickled randn carries a private generator copy",
]
EXPLANATION = "crash-point enumeration: each metaepoch boundary of each run is a snapshot point; state = canonical tree census"


class CountingObjective:
    """Objective as a callable object: counts its invocations (pickled by reference to this module)."""

    def __init__(self, name, box, maximize, level):
        self.name, self.box, self.maximize, self.level = name, np.array(box), maximize, level
        self.calls = 0
        self._f = None

    def __call__(self, x):
        if self._f is None:
            self._f = make_objective(self.name, self.box, self.maximize)
        self.calls += 1
        return self._f(x)

    def __getstate__(self):
        d = dict(self.__dict__)
        d["_f"] = None
        return d


class ConsultCounting:
    """A user-written global stop condition with internal state (how often it was consulted), around a shipped one.
    Module-level class: pickled by reference, its state travels with the snapshot."""

    def __init__(self, inner):
        self.inner = inner
        self.consults = 0

    def __call__(self, tree):
        self.consults += 1
        return self.inner(tree)

    def __str__(self):
        return f"ConsultCounting({self.inner})"


EVAL_LOG = []  # module-level state used by objectives of 'global' worlds (a user's evaluation log)


def build(desc):
    box = box_array(desc.get("box", "B_asym"))
    mx = desc.get("maximize", False)
    levels = []
    objs = []
    shared = desc.get("shared_counter")
    shared_co = CountingObjective(desc["obj"], box, mx, 0) if shared == "callable" else None
    for i, e in enumerate(desc["engines"]):
        if shared == "callable":
            # ONE stateful callable (it counts its calls) wrapped by one FunctionProblem per level
            objs.append(shared_co)
            p = FunctionProblem(shared_co, bounds=box.copy(), maximize=mx)
        elif shared == "global":
            # an objective defined inside a function (pickled by value) that writes to module-level state
            f = make_objective(desc["obj"], box, mx)

            def fun(x, _f=f):
                EVAL_LOG.append(1)
                return _f(x)

            objs.append(EVAL_LOG)
            p = FunctionProblem(fun, bounds=box.copy(), maximize=mx)
        elif desc.get("lambda_obj"):
            f = make_objective(desc["obj"], box, mx)
            cnt = [0]

            def fun(x, _f=f, _c=cnt):
                _c[0] += 1
                return _f(x)

            objs.append(cnt)
            p = FunctionProblem(fun, bounds=box.copy(), maximize=mx)
        else:
            co = CountingObjective(desc["obj"], box, mx, i)
            objs.append(co)
            p = FunctionProblem(co, bounds=box.copy(), maximize=mx, **({"use_cache": True} if desc.get("use_cache") else {}))
        if desc.get("stats_wrapper"):
            from pyhms.core.problem import StatsGatheringProblem

            p = StatsGatheringProblem(p)
        lsc = make_lsc(desc["lsc"][i] if desc.get("lsc") else None)
        levels.append(make_level(e, p, lsc, desc.get("gens", 1), box, desc))
    g = desc.get("gsc", {"kind": "metaepoch", "n": desc["Mh"]})
    gsc = MetaepochLimit(g["n"]) if g["kind"] == "metaepoch" else SingularProblemEvalLimitReached(g["n"])
    if desc.get("stateful_gsc"):
        gsc = ConsultCounting(gsc)
    sm = make_sprout(desc["sprout"], None, box)
    cfg = TreeConfig(levels, gsc, sm, options={"random_seed": desc["seed"], "hibernation": desc.get("hib", False)})
    t = DemeTree(cfg)
    if shared == "callable":
        t._c19_shared = True
    return t, objs


def calls_of(tree):
    out = []
    f0 = tree.config.levels[0].problem
    while not isinstance(f0, FunctionProblem):
        f0 = f0._inner
    f0 = f0.fitness_function
    if getattr(f0, "__name__", "") == "fun" and "EVAL_LOG" in getattr(f0, "__code__", f0).co_names:
        return [len(EVAL_LOG)]  # what the user sees: the module-level log
    if isinstance(f0, CountingObjective) and getattr(tree, "_c19_shared", False):
        return [f0.calls]  # what the user sees: the one callable, reached through the root level
    for lc in tree.config.levels:
        p = lc.problem
        while not isinstance(p, FunctionProblem):
            p = p._inner
        f = p.fitness_function
        if isinstance(f, CountingObjective):
            out.append(f.calls)
        else:
            out.append(f.__defaults__[1][0])
    return out


def verdicts(tree):
    v = [bool(tree.config.gsc(tree))]
    for l, d in tree.all_demes:
        try:
            v.append(bool(tree.config.levels[l].lsc(d)))
        except Exception as e:
            v.append(type(e).__name__)
    return v


def observe(tree):
    return {"digest": tree_digest(tree), "summary": tree.summary(), "verdicts": verdicts(tree), "n": tree.n_evaluations,
            "levels": [sum(d.n_evaluations for d in lv) for lv in tree.levels]}


def invariants(res, tree, L, desc, where, rep):
    ids = [d.id for _, d in tree.all_demes]
    if len(set(ids)) != len(ids):
        res.add_violation(ID, "C19/continued:duplicate-ids", f"{where}: duplicate ids {ids}", {}, rep)
    if tree.root.id != "root" or len(tree.levels[0]) != 1 or len(tree.levels) != len(desc["engines"]):
        res.add_violation(ID, "C19/continued:root-or-height", f"{where}: malformed root / height", {}, rep)
    listed = {}
    for _, p in tree.all_demes:
        for c in p.children:
            listed.setdefault(id(c), []).append(p)
    for l, d in tree.all_demes:
        if l == 0:
            continue
        ps = listed.get(id(d), [])
        if len(ps) != 1 or ps[0].level != l - 1:
            res.add_violation(ID, "C19/continued:parent", f"{where}: deme {d.id} has {len(ps)} parents", {}, rep)
        if not (0 <= d.started_at <= tree.metaepoch_count):
            res.add_violation(ID, "C19/continued:started-at", f"{where}: deme {d.id} started_at {d.started_at}", {}, rep)
    for lvl in range(1, len(tree.levels)):
        a = sum(1 for d in tree.levels[lvl] if d.is_active)
        if a > L:
            res.add_violation(ID, "C19/continued:level-limit", f"{where}: {a} active demes on level {lvl} > {L}", {}, rep)


def run_world(res, desc, tmpdir):
    tree, _ = build(desc)
    Mh = desc["Mh"]
    L = desc["sprout"].get("L", 2)
    mx = desc.get("maximize", False)
    btr = (lambda a, b: a > b) if mx else (lambda a, b: a < b)
    res.configs += 1
    k = 0
    gsc_seen = False
    while True:
        every = desc.get("snapshot_every", 1)
        if every > 1 and k % every and not tree.config.gsc(tree) and k <= Mh:
            # (large worlds: a snapshot costs seconds; only every n-th boundary and the final one are snapshot points)
            tree.run_step()
            k += 1
            continue
        rep = {"check": ID, "unit": {"kind": "world"}, "desc": desc, "dev": [], "snapshot_at": k}
        # one snapshot file per world, overwritten at every boundary (as a user who checkpoints into the default file name does)
        path = os.path.join(tmpdir, f"snap_{os.getpid()}.pkl")
        before = observe(tree)
        calls_before = calls_of(tree)
        st_np = np.random.get_state()[1].tobytes(), np.random.get_state()[2]
        st_py = random.getstate()
        consults_before = getattr(tree.config.gsc, "consults", None)
        tree.pickle_dump(path)
        if consults_before is not None:
            res.flags["snapshot of a tree whose stop condition has internal state"] += 1
            if tree.config.gsc.consults != consults_before:
                res.add_violation(ID, "C19/dump-consulted-stop-condition", f"pickle_dump at boundary {k} consulted the global stop condition ({tree.config.gsc.consults - consults_before} times): "
                                  "the state of a user-written condition changed by dumping", {}, rep)
        rng_after = (np.random.get_state()[1].tobytes(), np.random.get_state()[2]), random.getstate()
        after = observe(tree)
        res.executions += 1
        res.by_bound[0] += 1
        res.status["ok"] += 1
        s = h64(canonical_state(tree, gsc_seen))
        res.states.add(s)
        res.transitions.add(h64((s, "dump+load", k)))
        if rng_after[0] != st_np or rng_after[1] != st_py:
            res.add_violation(ID, "C19/dump-touched-rng", f"pickle_dump at boundary {k} changed the global random state", {}, rep)
        if calls_of(tree) != calls_before:
            res.add_violation(ID, "C19/dump-evaluated", f"pickle_dump at boundary {k} invoked the objective", {}, rep)
        # a summary that names a NaN best is a random pick among the NaN individuals (by design): not compared
        flds = ("digest", "verdicts", "n", "levels") if "nan" in before["summary"] else ("digest", "summary", "verdicts", "n", "levels")
        for fld in flds:
            if before[fld] != after[fld]:
                res.add_violation(ID, f"C19/dump-altered-live-tree:{fld}", f"pickle_dump at boundary {k} of {desc['engines']} changed the live tree ({fld})", {}, rep)
        loaded = DemeTree.pickle_load(path)
        if consults_before is not None and getattr(loaded.config.gsc, "consults", None) != consults_before:
            res.add_violation(ID, "C19/loaded-differs:stop-condition-state", f"the stop condition of the tree loaded from the snapshot at boundary {k} was consulted "
                              f"{getattr(loaded.config.gsc, 'consults', None)} times, the live one {consults_before} times at the moment of the dump", {}, rep)
        lo = observe(loaded)
        for fld in flds:
            if before[fld] != lo[fld]:
                eng = "+".join(desc["engines"])
                res.add_violation(ID, f"C19/loaded-differs:{fld}", f"tree loaded from the snapshot at boundary {k} of {desc['engines']} differs from the original ({fld})",
                                  {"original": str(before[fld])[:600], "loaded": str(lo[fld])[:600]}, rep)
        # continue the LOADED tree to the end
        base_calls = calls_of(loaded)
        base_levels = lo["levels"]
        best_seq = [loaded.best_individual.fitness]
        steps = 0
        live_stepped = False
        # differential continuation: a tree without live CMA-ES demes has no private generator state, so from identical
        # global generator states the restored tree and the live tree must make the same next metaepoch
        cma_live = any(type(d).__name__ == "CMADeme" and d.is_active for _, d in tree.all_demes)
        twin_step = (not cma_live) and not tree.config.gsc(tree) and "CMA" not in "".join(desc["engines"])
        try:
            if twin_step:
                st = (np.random.get_state(), random.getstate())
                n_twin = desc.get("twin_steps", 1)  # (some worlds compare several metaepochs: state that detaches only shows after an update)
                d_loaded = []
                c0_loaded = calls_of(loaded)
                for _ in range(n_twin):
                    if loaded.config.gsc(loaded):
                        break
                    loaded.run_step()
                    steps += 1
                    d_loaded.append(tree_digest(loaded))
                real_loaded = sum(calls_of(loaded)) - sum(c0_loaded)
                np.random.set_state(st[0])
                random.setstate(st[1])
                c_before = calls_of(loaded)
                c0_live = calls_of(tree)
                d_live = []
                for _ in range(len(d_loaded)):
                    tree.run_step()
                    d_live.append(tree_digest(tree))
                    k_extra = len(d_live) - 1
                real_live = sum(calls_of(tree)) - sum(c0_live)
                # (a module-level log is written by the live tree as well: not part of the restored tree's account)
                base_calls = [b + (a1 - a0) for b, a0, a1 in zip(base_calls, c_before, calls_of(loaded))]
                live_stepped = True
                k += max(len(d_live) - 1, 0)
                if desc.get("use_cache") and desc.get("shared_counter") is None:
                    res.flags["objective invocations of restored and live tree compared (memoising problem)"] += 1
                    if real_loaded != real_live:
                        res.add_violation(ID, "C19/continuation-differs:objective-invocations", f"over the next {len(d_live)} metaepoch(s) the tree restored from the snapshot at boundary {k} invoked the objective "
                                          f"{real_loaded} times, the live tree {real_live} times (a memo that was not part of the snapshot)", {}, rep)
                if d_live != d_loaded:
                    res.add_violation(ID, "C19/continuation-differs", f"from identical generator states the tree restored from the snapshot at boundary {k} of {desc['engines']} "
                                      f"performs a different next metaepoch than the live tree (state lost or detached by the snapshot)", {}, rep)
                else:
                    res.flags["restored and live tree made the same next metaepoch"] += 1
            while not loaded.config.gsc(loaded) and steps <= min(Mh + 2, desc.get("max_continue", 999)):
                loaded.run_step()
                steps += 1
                where = f"loaded@{k}+{steps}"
                invariants(res, loaded, L, desc, where, rep)
                cur = calls_of(loaded)
                lv = [sum(d.n_evaluations for d in lvl) for lvl in loaded.levels]
                if desc.get("use_cache"):
                    lv_cmp = []  # (with a memoising problem the counters count requests, not invocations)
                elif len(cur) == 1 and len(lv) > 1:
                    # one counter for all levels (a shared callable / a module-level log)
                    res.flags["continued with one evaluation counter shared by all levels"] += 1
                    if sum(lv) - sum(base_levels) != cur[0] - base_calls[0]:
                        res.add_violation(ID, "C19/continued:accounting-shared-counter", f"{where}: the tree's counters grew by {sum(lv) - sum(base_levels)}, the user's own counter "
                                          f"(shared callable / module-level log) by {cur[0] - base_calls[0]} since the restore", {}, rep)
                    lv_cmp = []
                else:
                    lv_cmp = range(len(lv))
                if desc.get("use_cache"):
                    lv_cmp = []
                for i in lv_cmp:
                    if lv[i] - base_levels[i] != cur[i] - base_calls[i]:
                        res.add_violation(ID, "C19/continued:accounting", f"{where}: level {i} counters grew by {lv[i] - base_levels[i]}, objective invoked {cur[i] - base_calls[i]} times since the restore", {}, rep)
                if loaded.n_evaluations != sum(lv):
                    res.add_violation(ID, "C19/continued:accounting-total", f"{where}: tree total != sum over levels", {}, rep)
                b = loaded.best_individual.fitness
                if btr(best_seq[-1], b):
                    res.add_violation(ID, "C19/continued:best-got-worse", f"{where}: best went from {best_seq[-1]} to {b}", {}, rep)
                best_seq.append(b)
                res.transitions.add(h64((s, "continued", k, steps, h64(canonical_state(loaded, False)))))
        except Exception as e:
            res.add_violation(ID, f"C19/continued:exception:{type(e).__name__}", f"loaded tree (snapshot at boundary {k}) raised {type(e).__name__}: {e}", {}, rep)
        # the same snapshot file read a second time, after the first restored tree has moved on: again the tree of boundary k
        try:
            again = DemeTree.pickle_load(path)
            ag = observe(again)
            if again is loaded:
                res.add_violation(ID, "C19/second-load-same-object", f"loading the snapshot of boundary {k} twice returned the very same tree object", {}, rep)
            else:
                for fld in flds:
                    if before[fld] != ag[fld]:
                        res.add_violation(ID, f"C19/second-load-differs:{fld}", f"the snapshot of boundary {k} of {desc['engines']}, loaded a second time after the first restored tree had run on, "
                                          f"differs from the original ({fld})", {}, rep)
                        break
                else:
                    if steps:
                        res.flags["snapshot loaded a second time after the first copy ran on"] += 1
        except Exception as e:
            res.add_violation(ID, f"C19/second-load:exception:{type(e).__name__}", f"second pickle_load of the snapshot at boundary {k} raised {type(e).__name__}: {e}", {}, rep)
        if k >= 1:
            res.flags["snapshot written over an earlier snapshot of the same run"] += 1
        if len(tree.all_demes) >= 2 and steps >= 1:
            res.nontrivial.add(h64((desc, k)))
        res.flags[f"continued {min(steps, 3)}+ steps" if steps else "snapshot at the final boundary"] += 1
        if any(type(d).__name__ == "CMADeme" and d.is_active for _, d in tree.all_demes):
            res.flags["snapshot with a live CMA-ES deme"] += 1
        if any(getattr(d, "_hibernating", False) for _, d in tree.all_demes):
            res.flags["snapshot with a hibernating deme"] += 1
        if len(tree.levels) >= 3:
            par = [d.id.rsplit("/", 1)[0] for d in tree.levels[2]]
            if any(par[i] != par[i + 1] and par[i] in par[i + 2 :] for i in range(len(par) - 2)):
                res.flags["snapshot with interleaved level-2 demes"] += 1
        if len(res.samples) < 2 and k == 2:
            res.samples.append({"desc": desc, "snapshot_at": k, "demes": len(tree.all_demes), "loaded_continued_steps": steps, "summary_head": before["summary"][:200]})
        if live_stepped:
            k += 1
            if k > Mh + 1:
                # explicit horizon: a tree whose evaluation-based condition never fires (known finding F1) would go on for ever
                res.flags["horizon reached with the global condition still false"] += 1
                break
            continue
        if tree.config.gsc(tree) or k > Mh + 1:
            break
        tree.run_step()
        k += 1
    res.outcomes.add(h64(canonical_state(tree, True)))
    if os.path.exists(path):
        os.remove(path)
    res.configs_completed += 1


def worlds(tier, seed):
    s = 1 + seed % 1000
    shapes = [("SEA", "CMAf"), ("DE", "CMAw"), ("SHADE", "CMAs"), ("SOB", "DE"), ("LHS", "SHADE"), ("SEA", "LOC"), ("DE", "SEA", "CMAf"), ("SHADE", "SOB", "LOC"),
              ("GA", "LHS"), ("MWEA", "SEAX"), ("SEAA", "DEd"), ("DEd", "SOB")]
    from ..runlib import shapes_h2, shapes_h3_cover

    if tier == "thorough":
        shapes = shapes + [e for e in shapes_h2() if e not in shapes] + shapes_h3_cover()[::4]
    else:
        shapes = shapes + [e for e in shapes_h2()[::4] if e not in shapes] + shapes_h3_cover()[::28]
    out = []
    k = 0
    for eng in shapes:
        for hib in (False, True):
            for lam in (False, True):
                k += 1
                if tier == "quick" and k % 4 == 3 and len(eng) == 2 and eng not in (("SEA", "CMAf"), ("SHADE", "CMAs")):
                    continue
                d = dict(engines=list(eng), gens=1 + k % 2, Mh=4, seed=s, hib=hib, lambda_obj=lam, obj=("twofunnel", "sphere_in", "plateau", "const")[k % 4], maximize=bool(k % 3 == 0),
                         sprout={"kind": ("simple", "nbc")[k % 2], "L": 2}, lsc=[None] + [{"kind": "metaepoch", "m": 2}] * (len(eng) - 1))
                if k % 5 == 0:
                    d["gsc"] = {"kind": "evals", "n": 70}
                if k % 3 == 1:
                    d["stateful_gsc"] = True
                if k % 7 in (2, 5) and len(eng) >= 2:
                    d["shared_counter"] = ("callable", "global")[(k % 7) // 5]
                out.append(d)
    # three levels, two long-lived middle demes that sprout alternately: the ORDER of the demes on a level is part of the tree
    for j, eng in enumerate([("SEA", "DE", "SEA"), ("DE", "SEA", "SHADE"), ("LHS", "GA", "DEd")]):
        out.append(dict(engines=list(eng), gens=1, Mh=8, seed=s + j, hib=False, lambda_obj=bool(j % 2), obj="twofunnel", maximize=bool(j % 2),
                        sprout={"kind": "simple", "L": 3, "far": 0.02}, lsc=[None, None, {"kind": "metaepoch", "m": 1}]))
    # beyond the small scope: more than 64 metaepochs in a history (every boundary is a snapshot point, the restored tree is continued for
    # two steps only), and a timing wrapper that has seen more than 5000 evaluations
    for j, eng in enumerate([("SEA",), ("DE", "SEA"), ("LHS", "CMAf")] if tier == "thorough" else [("SEA",), ("DE", "SEA")]):
        out.append(dict(engines=list(eng), gens=1, Mh=67 if j < 2 else 130, seed=s + j, hib=bool(j % 2), lambda_obj=bool(j % 2), obj="twofunnel", maximize=bool(j % 2), max_continue=2,
                        sprout={"kind": "simple", "L": 1}, lsc=[None] + [{"kind": "metaepoch", "m": 3}] * (len(eng) - 1)))
    for j, eng in enumerate([("SEA", "DE"), ("DE",)] if tier == "thorough" else [("DE",)]):
        out.append(dict(engines=list(eng), gens=2, Mh=28, pop=100, seed=s + j, hib=False, lambda_obj=bool(j % 2), obj="sphere_in", maximize=bool(j % 2), max_continue=2, stats_wrapper=True, snapshot_every=9,
                        sprout={"kind": "simple", "L": 1}, lsc=[None] * len(eng)))
    # SHADE / DE trees compared with the live tree over THREE metaepochs; memoising problems (use_cache=True)
    for j, eng in enumerate([("SHADE",), ("SHADE", "DE"), ("DE", "SHADE"), ("SEA", "SHADE")]):
        out.append(dict(engines=list(eng), gens=2, Mh=9, seed=s + j, hib=False, lambda_obj=False, obj=("twofunnel", "sphere_in")[j % 2], maximize=bool(j % 2), twin_steps=3, max_continue=1, pop=(6, 10)[j % 2],
                        sprout={"kind": "simple", "L": 2}, lsc=[None] + [{"kind": "metaepoch", "m": 3}] * (len(eng) - 1)))
    for j, eng in enumerate([("DE", "DE"), ("SEA", "LOC"), ("DE", "SEA"), ("LHS", "DE", "LOC")]):
        out.append(dict(engines=list(eng), gens=1, Mh=7, seed=s + j, hib=bool(j % 2), lambda_obj=False, obj="twofunnel", maximize=bool(j % 2), use_cache=True, max_continue=2,
                        sprout={"kind": "simple", "L": 2, "far": 0.02}, lsc=[None] + [{"kind": "metaepoch", "m": 2}] * (len(eng) - 1)))
    # objective undefined (NaN) on half of the box: comparisons among NaN individuals draw from Python's `random`
    for j, eng in enumerate([("SEA", "DE"), ("DE", "SHADE"), ("LHS", "SEAX"), ("GA",), ("SHADE", "SOB")]):
        for hib in (False, True):
            out.append(dict(engines=list(eng), gens=1, Mh=4, seed=s + j, hib=hib, lambda_obj=bool(j % 2), obj="nanhalf", maximize=bool(j % 2), pop=(6, 10)[j % 2],
                            sprout={"kind": ("simple", "nbc")[j % 2], "L": 2}, lsc=[None] + [{"kind": "metaepoch", "m": 2}] * (len(eng) - 1)))
    return out


def units(tier, seed):
    return [{"descs": c} for c in chunks(worlds(tier, seed), 2)]


def run_unit(unit):
    res = Result()
    tmp = tempfile.mkdtemp(prefix="hmsmc_c19_")
    try:
        for d in unit["descs"]:
            run_world(res, d, tmp)
    finally:
        shutil.rmtree(tmp, ignore_errors=True)
    return res


def finish(res, tier):
    if len(res.nontrivial) < 60:
        raise Vacuous("few non-trivial snapshot points")
    for f in ("snapshot with a live CMA-ES deme", "snapshot with a hibernating deme", "snapshot at the final boundary", "restored and live tree made the same next metaepoch", "snapshot with interleaved level-2 demes",
              "snapshot of a tree whose stop condition has internal state", "snapshot loaded a second time after the first copy ran on",
              "continued with one evaluation counter shared by all levels"):
        if res.flags[f] < 5:
            raise Vacuous(f"'{f}' seen {res.flags[f]} times")
    return {"snapshot_points": res.executions, "exhaustive": True}


def replay(rep):
    res = Result()
    tmp = tempfile.mkdtemp(prefix="hmsmc_c19_")
    try:
        run_world(res, rep["desc"], tmp)
    finally:
        shutil.rmtree(tmp, ignore_errors=True)
    return res.violations
