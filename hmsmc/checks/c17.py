"""C17 - bound repair always lands inside the box and only moves what it must.

Complete enumeration over a box alphabet x an input alphabet (faces, +-3 ulps, multiples of the
range, interior grid) x the three methods, judged in exact rational arithmetic; thorough adds an
exhaustive sweep over ALL finite float16 values for 40 boxes (every rounding configuration of a
small float format).
"""
from __future__ import annotations

import itertools
from fractions import Fraction

import numpy as np

from ..explorer import Result, Vacuous
from ..world import h64

ID = "C17"
RULE = (
    "boxes = (also combined three at a time as the dimensions of ONE call - heterogeneous multi-dimensional boxes) all pairs lo < hi from a 19-value alphabet (decimal, tiny, huge) plus 7 very narrow boxes (width 1e-15 .. 1e-12, at the origin and offset); inputs per box = lo/hi/mid + k*range for k in -5..5, each "
    "shifted by -3..+3 ulps, plus an interior grid, plus 0.0 and +-1e300 guard values; methods clip/reflect/toroidal; each (box, input, "
    "method) is one application of the real apply_bounds, judged exactly (fractions); thorough: the same oracle over all 63488 finite "
    "float16 values x 40 float16 boxes; non-trivial = the input lies outside the box or within 3 ulps of a face"
)
ASSUMPTIONS = [
    "boxes with a range near the largest double (up to 1.6e308) are included, with inputs up to 0.3 ranges outside; inputs whose distance to a face overflows a double (|x - lower| > 1.79e308) are not: 'congruent modulo the range' has no floating-point meaning there",
    "IEEE-754 binary64 / binary16 arithmetic of this platform's NumPy",
    "identity / congruence tolerance: 8 ulps of the largest magnitude involved, times (1 + number of ranges the input is away)",
    "interpretation: toroidal repair maps a point within tolerance of the upper face to the lower face (same point on the torus)",
]
EXPLANATION = "states = distinct (box, input) pairs; transitions = applications (box, input, method) -> output"

VALS = [-20.0, -5.0, -3.0, -1 / 3, -0.1, 1e-9, 1e-3, 0.1, 0.2, 0.3, 1 / 3, 0.7, 1.0, 3.0, 5.0, 20.0, 123.456, 1e3, 1e6]
METHODS = ("clip", "reflect", "toroidal")


NARROW = [(0.0, 1e-15), (-3e-14, 5e-14), (1.0, 1.0000000000001), (-1e-13, 0.0), (123.456, 123.456000000001), (1e-300, 3e-300), (-0.1, -0.09999999999999)]


# ranges close to the largest double: twice the range is not representable
HUGE = [(-5e307, 5e307), (0.0, 1.2e308), (-1e308, 5e307), (-1.7e308, -1e307)]


def boxes():
    return [(a, b) for a, b in itertools.combinations(sorted(VALS), 2)] + NARROW + HUGE


def inputs_for(lo, hi):
    rng = hi - lo
    mid = (lo + hi) / 2
    out = []
    for base in (lo, hi, mid):
        for k in range(-5, 6):
            v = base + k * rng
            w = v
            ups = [v]
            for _ in range(3):
                w = np.nextafter(w, np.inf)
                ups.append(w)
            w = v
            for _ in range(3):
                w = np.nextafter(w, -np.inf)
                ups.append(w)
            out.extend(ups)
    for j in range(1, 10):
        out.append(lo + j * rng / 10)
    out.extend([np.nextafter(lo, hi), np.nextafter(hi, lo)])
    if rng > 1e307:
        # huge boxes: most multiples of the range are not representable; add points a fraction of the range outside
        out.extend([hi + f * rng for f in (0.05, 0.1, 0.3)] + [lo - f * rng for f in (0.05, 0.2, 0.3)])
    # (inputs whose distance to a face is itself not a representable double are left out: see ASSUMPTIONS)
    with np.errstate(over="ignore"):
        return [float(v) for v in out if np.isfinite(v) and np.isfinite(v - lo) and np.isfinite(hi - v)]


def ulp(v):
    return float(np.spacing(abs(v))) if v != 0 else 5e-324


def judge(res, lo, hi, x, method, r, rep, dtype_ulp=None):
    """Exact oracle for one application."""
    F = Fraction
    if r != r or r in (float("inf"), float("-inf")):
        res.add_violation(ID, f"C17/outside-box:{method}:not-a-number", f"{method}({x!r}) on ({lo!r}, {hi!r}) = {r!r} is not a point of the box", {"lo": lo, "hi": hi, "x": x, "r": repr(r)}, rep)
        return
    fl, fh, fx, fr = F(lo), F(hi), F(x), F(r)
    R = fh - fl
    sig = None
    if not (fl <= fr <= fh) or r != r:
        side = "above-upper" if fr > fh else "below-lower"
        res.add_violation(ID, f"C17/outside-box:{method}:{side}", f"{method}({x!r}) on ({lo!r}, {hi!r}) = {r!r} lies outside the box", {"lo": lo, "hi": hi, "x": x, "r": r}, rep)
        sig = True
    M = max(abs(lo), abs(hi), abs(x), float(R))
    k = abs((fx - fl) // R)
    u = dtype_ulp(M) if dtype_ulp else ulp(M)
    tol = F(8 * u) * (1 + k)
    inside = fl <= fx <= fh
    if method == "clip":
        ideal = fl if fx < fl else fh if fx > fh else fx
        if fr != ideal:
            res.add_violation(ID, "C17/clip-not-nearest-face", f"clip({x!r}) on ({lo!r}, {hi!r}) = {r!r}, nearest point of the box is {float(ideal)!r}", {"lo": lo, "hi": hi, "x": x, "r": r}, rep)
        return
    if method == "reflect":
        t = (fx - fl) % (2 * R)
        ideal = fl + (t if t <= R else 2 * R - t)
        if abs(fr - ideal) > tol:
            res.add_violation(
                ID,
                "C17/reflect-not-congruent" if not inside else "C17/reflect-moved-inside-point",
                f"reflect({x!r}) on ({lo!r}, {hi!r}) = {r!r}, mirror image is {float(ideal)!r}",
                {"lo": lo, "hi": hi, "x": x, "r": r},
                rep,
            )
        return
    if method == "toroidal":
        t = (fx - fl) % R
        ideal = fl + t
        d = abs(fr - ideal)
        circ = min(d, R - d)
        if circ > tol:
            res.add_violation(ID, "C17/toroidal-not-congruent", f"toroidal({x!r}) on ({lo!r}, {hi!r}) = {r!r}, wrapped image is {float(ideal)!r}", {"lo": lo, "hi": hi, "x": x, "r": r}, rep)
        elif inside and d > tol:
            # an in-box point jumped by a whole range: only the upper face (within tolerance) may map to the lower face
            if fh - fx <= tol and fr - fl <= tol:
                res.flags["toroidal: upper face mapped to lower face (accepted interpretation)"] += 1
            else:
                res.add_violation(ID, "C17/toroidal-moved-inside-point", f"toroidal({x!r}) on ({lo!r}, {hi!r}) = {r!r}: an interior point was moved by a whole range", {"lo": lo, "hi": hi, "x": x, "r": r}, rep)


def units(tier, seed):
    bs = boxes()
    us = [{"kind": "f64", "boxes": bs[i : i + 6]} for i in range(0, len(bs), 6)]
    # heterogeneous multi-dimensional boxes: three different (lo, hi) pairs as the dimensions of one call
    wide = [b for b in bs if 1e-9 <= b[1] - b[0] < 1e300]
    triples = [(wide[i], wide[(i * 7 + 3) % len(wide)], wide[(i * 13 + 5) % len(wide)]) for i in range(0, len(wide), 3)]
    us += [{"kind": "f64multi", "triples": triples[i : i + 8]} for i in range(0, len(triples), 8)]
    # beyond the small scope: one call with 5, 12 and 30 dimensions of different bounds (thousands of genes, dimensions that do not divide
    # a power of two)
    for nd in (5, 12, 30):
        tuples = [tuple(wide[(i * 11 + 7 * j) % len(wide)] for j in range(nd)) for i in range(3)]
        us.append({"kind": "f64multi", "triples": tuples})
    if tier == "thorough":
        v16 = [-5.0, -3.0, -0.1, 0.2, 0.3, 1.0, 3.0, 5.0, 123.4, 1000.0]
        b16 = [(a, b) for a, b in itertools.combinations(v16, 2)][:40]
        us += [{"kind": "f16", "boxes": b16[i : i + 2]} for i in range(0, len(b16), 2)]
    return us


def run_unit(unit):
    from pyhms.demes.single_pop_eas.common import apply_bounds

    res = Result()
    if unit["kind"] == "f64":
        shared_bounds = np.zeros((1, 2))
        for bi, (lo, hi) in enumerate(unit["boxes"]):
            xs = inputs_for(lo, hi) + [0.0, 1e300, -1e300]
            if bi % 2:
                # the caller keeps ONE bounds array and rewrites it for the next box
                shared_bounds[0, 0], shared_bounds[0, 1] = lo, hi
                bounds = shared_bounds
                res.flags["bounds array reused for another box"] += 1
            else:
                bounds = None  # let the previous array be freed first: its id may be recycled
                bounds = np.array([[lo, hi]], dtype=float)
            g = np.array(xs, dtype=float).reshape(-1, 1)
            for method in METHODS:
                out = apply_bounds(g.copy(), bounds, method)
                out = np.asarray(out, dtype=float).reshape(-1)
                for x, r in zip(xs, out):
                    rep = {"check": ID, "unit": {"kind": "f64"}, "desc": {"lo": lo, "hi": hi, "x": x, "method": method}, "dev": []}
                    res.executions += 1
                    if abs(x) >= 1e299:
                        # guard value: only the in-box clause is meaningful (congruence needs 1e300/range steps)
                        if not (lo <= r <= hi):
                            res.add_violation(ID, f"C17/outside-box:{method}:far", f"{method}({x!r}) on ({lo!r}, {hi!r}) = {r!r} lies outside the box", {}, rep)
                        continue
                    judge(res, lo, hi, x, method, float(r), rep)
                    res.transitions.add(h64((lo, hi, x, method)))
            for x in xs:
                res.states.add(h64((lo, hi, x)))
                if not (lo <= x <= hi) or min(abs(x - lo), abs(x - hi)) <= 4 * ulp(max(abs(lo), abs(hi))):
                    res.nontrivial.add(h64((lo, hi, x)))
            res.configs += 1
            res.configs_completed += 1
            if len(res.samples) < 2:
                res.samples.append({"box": [lo, hi], "inputs": xs[:8], "reflect": [float(v) for v in apply_bounds(np.array(xs[:8]).reshape(-1, 1), bounds, "reflect").reshape(-1)]})
    elif unit["kind"] == "f64multi":
        for tri in unit["triples"]:
            cols = [inputs_for(lo, hi) for lo, hi in tri]
            m = min(len(c) for c in cols)
            G = np.array([c[:m] for c in cols], dtype=float).T  # (m, 3)
            bounds = np.array([[lo, hi] for lo, hi in tri], dtype=float)
            for method in METHODS:
                out = np.asarray(apply_bounds(G.copy(), bounds, method), dtype=float)
                for j, (lo, hi) in enumerate(tri):
                    for x, r in zip(G[:, j], out[:, j]):
                        rep = {"check": ID, "unit": {"kind": "f64multi"}, "desc": {"lo": lo, "hi": hi, "x": float(x), "method": method, "other_dims": [list(b) for b in tri]}, "dev": []}
                        res.executions += 1
                        judge(res, lo, hi, float(x), method, float(r), rep)
                res.transitions.add(h64(("multi", tri, method)))
            res.states.add(h64(("multi", tri)))
            res.flags["heterogeneous multi-dimensional box"] += 1
            res.configs += 1
            res.configs_completed += 1
    else:
        allv = np.arange(0, 65536, dtype=np.uint16).view(np.float16)
        allv = allv[np.isfinite(allv)]
        for lo, hi in unit["boxes"]:
            lo16, hi16 = np.float16(lo), np.float16(hi)
            if not lo16 < hi16:
                continue
            bounds = np.array([[lo16, hi16]], dtype=np.float16)
            flo, fhi = float(lo16), float(hi16)
            R = fhi - flo  # exact in binary64
            x = allv.astype(np.float64)
            with np.errstate(all="ignore"):
                kk = np.floor((x - flo) / R)
                far = np.abs(kk) > 64  # congruence is only judged up to 64 ranges away
                for method in METHODS:
                    out = np.asarray(apply_bounds(allv.reshape(-1, 1).copy(), bounds, method)).reshape(-1)
                    r = out.astype(np.float64)
                    res.executions += len(x)
                    bad = ~((r >= flo) & (r <= fhi))
                    M = np.maximum(np.maximum(abs(flo), abs(fhi)), np.maximum(np.abs(x), R))
                    u = np.spacing(M.astype(np.float16)).astype(np.float64)
                    tol = 8 * u * (1 + np.abs(kk))
                    if method == "clip":
                        ideal = np.clip(x, flo, fhi)
                        wrong = r != ideal
                        sig = "C17/clip-not-nearest-face"
                    elif method == "reflect":
                        t = np.mod(x - flo, 2 * R)
                        ideal = flo + np.where(t <= R, t, 2 * R - t)
                        wrong = (np.abs(r - ideal) > tol) & ~far
                        sig = "C17/reflect-not-congruent"
                    else:
                        t = np.mod(x - flo, R)
                        ideal = flo + t
                        d = np.abs(r - ideal)
                        circ = np.minimum(d, R - d)
                        inside = (x >= flo) & (x <= fhi)
                        upper = (fhi - x <= tol) & (r - flo <= tol)
                        wrong = ((circ > tol) | (inside & (d > tol) & ~upper)) & ~far
                        sig = "C17/toroidal-not-congruent"
                    for idx in np.nonzero(bad)[0][:3]:
                        rep = {"check": ID, "unit": {"kind": "f16"}, "desc": {"lo": flo, "hi": fhi, "x": float(x[idx]), "method": method, "dtype": "float16"}, "dev": []}
                        res.add_violation(ID, f"C17/outside-box:{method}:float16", f"float16 {method}({x[idx]!r}) on ({flo!r}, {fhi!r}) = {r[idx]!r} lies outside the box", {}, rep)
                    res.viol_counts[f"C17/outside-box:{method}:float16"] += max(0, int(bad.sum()) - 3) if bad.any() else 0
                    for idx in np.nonzero(wrong & ~bad)[0][:3]:
                        rep = {"check": ID, "unit": {"kind": "f16"}, "desc": {"lo": flo, "hi": fhi, "x": float(x[idx]), "method": method, "dtype": "float16"}, "dev": []}
                        res.add_violation(ID, sig + ":float16", f"float16 {method}({x[idx]!r}) on ({flo!r}, {fhi!r}) = {r[idx]!r}, expected about {ideal[idx]!r}", {}, rep)
                    res.extra["float16 applications"] += len(x)
            res.states.add(h64(("f16", flo, fhi)))
            res.transitions.add(h64(("f16", flo, fhi, "all")))
            res.configs += 1
            res.configs_completed += 1
    res.status["ok"] += res.executions
    res.by_bound[0] += res.executions
    return res


def finish(res, tier):
    if len(res.nontrivial) < 1000:
        raise Vacuous("too few outside / face inputs")
    if res.flags["heterogeneous multi-dimensional box"] < 20:
        raise Vacuous("heterogeneous boxes not exercised")
    return {"applications": res.executions, "float16_applications": res.extra.get("float16 applications", 0),
            "exhaustive": True}


def replay(rep):
    from pyhms.demes.single_pop_eas.common import apply_bounds

    d = rep["desc"]
    res = Result()
    if d.get("other_dims"):
        bounds = np.array(d["other_dims"], dtype=float)
        j = next(i for i, b in enumerate(d["other_dims"]) if b[0] == d["lo"] and b[1] == d["hi"])
        g = np.array([[(b[0] + b[1]) / 2 for b in d["other_dims"]]], dtype=float)
        g[0, j] = d["x"]
        r = np.asarray(apply_bounds(g, bounds, d["method"]), dtype=float)[0, j]
        print(f"apply_bounds(..., dim {j}: {d['x']!r}, box {d['other_dims']}, {d['method']}) -> {float(r)!r}")
        judge(res, d["lo"], d["hi"], d["x"], d["method"], float(r), rep)
        return res.violations
    dt = np.float16 if d.get("dtype") == "float16" else float
    bounds = np.array([[d["lo"], d["hi"]]], dtype=dt)
    r = np.asarray(apply_bounds(np.array([[d["x"]]], dtype=dt), bounds, d["method"])).reshape(-1)[0]
    print(f"apply_bounds({d['x']!r}, ({d['lo']!r}, {d['hi']!r}), {d['method']}) = {float(r)!r}")
    if d.get("dtype") == "float16":
        if not (d["lo"] <= float(r) <= d["hi"]):
            res.add_violation(ID, f"C17/outside-box:{d['method']}:float16", "outside", {}, rep)
        return res.violations
    judge(res, d["lo"], d["hi"], d["x"], d["method"], float(r), rep)
    return res.violations
