"""C06 - see DESIGN.md section 6. Lifecycle exploration: scripted sprouting through the real
filters, choice kinds G (global stop first true), L (local stop verdicts), S (candidate counts)."""
from __future__ import annotations

from ..explorer import Result, Vacuous
from ..monitors import C06Monitor
from ..runlib import lifecycle_units, replay_run, run_split_unit

ID = "C06"
MONITORS = [C06Monitor]
RULE = (
    "worlds = scripted-sprout trees (heights 2-3, level limit 1-3, per-deme limit none/1/2, shipped local conditions underneath, "
    "hibernation on/off); (a) complete enumeration of all L/S choice vectors for small height-2 worlds with horizon 3, "
    "(b) all executions with <= 2 (quick) / <= 3 (thorough) deviations over G/L/S choice points; every execution is a run of the real "
    "DemeTree driven by the verbatim loop 'while not gsc(tree): tree.run_step()'; non-trivial = at least one deme was deactivated and at least one fresh deme was observed"
)
ASSUMPTIONS = [
    "alphabets of DESIGN.md section 4; scripted candidates are always genuine members of the parent's current population",
    "forced global verdicts are sticky (monotone user condition); forced local verdicts are 'True where the real one says False'",
]
EXPLANATION = "state = canonical tree census (ids, levels, classes, start metaepochs, active/hibernating flags, own metaepoch counts, parent)"


def units(tier, seed):
    return lifecycle_units(tier, seed)


def _nontrivial(x):
    return any(f.startswith('deactivation by') for f in x.flags) and 'fresh deme observed' in x.flags


def run_unit(unit):
    if unit.get("kind") == "sequence":
        from ..runlib import run_descs

        return run_descs(Result(), ID, unit, unit["descs"], MONITORS, _nontrivial)
    return run_split_unit(ID, unit, MONITORS, _nontrivial)


def finish(res, tier):
    if len(res.nontrivial) < 50:
        raise Vacuous(f"only {len(res.nontrivial)} non-trivial executions")
    if res.configs_completed < res.configs:
        raise Vacuous(f"{res.configs - res.configs_completed} configurations without any completed execution")
    return {"complete_worlds": "all L/S vectors of the 'complete' worlds; G/L/S deviation bound for the others",
            "monitor_comparisons": dict(res.extra)}


def replay(rep):
    return replay_run(MONITORS, rep)
