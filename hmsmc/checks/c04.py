"""C04 - the reported best is the true best of everything kept, and never gets worse."""
from __future__ import annotations

from ..explorer import Result, Vacuous
from ..monitors import C04Monitor
from ..runlib import chunks, minimize_run, replay_run, run_descs, shapes_h1, shapes_h2, shapes_h3_all, shapes_h3_cover
from ..world import h64

ID = "C04"
MONITORS = [C04Monitor]
RULE = (
    "RUN: all 150 height-1/2 engine mixes (+196 / 1960 triples) x both directions x objectives {twofunnel, plateau, sphere_in} x "
    "global conditions {metaepoch, eval limit}; the oracle runs at every metaepoch boundary (brute-force scan of all histories, identity "
    "membership, monotone best, best == best value the recorder ever saw for mixes without the local optimiser); BUDGET: minimize(maxfun=N) "
    "for every N in 1..Nmax on two boxes: fun == minimum of everything fun returned, and for ALL pairs N1 < N2 the call log of N1 is a "
    "bitwise prefix of the call log of N2 and fun(N2) <= fun(N1); non-trivial = a run in which the reported best improved at least once "
    "after the first boundary / a budget pair"
)
ASSUMPTIONS = ["alphabets of DESIGN.md section 4"]
EXPLANATION = "state = canonical tree census at every consult / boundary"


class C04M(C04Monitor):
    def end(self, tree):
        if len(set(self.seq)) >= 2:
            self.x.flag("best improved during the run")


def units(tier, seed):
    s = 1 + seed % 1000
    descs = []
    shapes = shapes_h1() + shapes_h2() + (shapes_h3_cover() if tier == "quick" else shapes_h3_all())
    objs = ("twofunnel", "plateau", "sphere_in")
    for k, eng in enumerate(shapes):
        for mx in (False, True):
            for j in range(1 if (tier == "quick" or len(eng) == 3) else 3):
                descs.append(dict(engines=list(eng), gens=1 + (k + j) % 3, maximize=mx, obj=objs[(k + j) % 3], Mh=4, seed=s, observing_gsc=bool((k + mx) % 2), pmut=(1.0, 0.5)[(k // 2 + j) % 2],
                                  gsc=({"kind": "horizon"}, {"kind": "evals", "n": 90})[(k + j) % 2],
                                  sprout={"kind": ("simple", "nbc")[(k + j + mx) % 2], "L": 2}, hib=bool((k // 2) % 2),
                                  box=("B_asym", "B_dec", "B_3d")[(k + j) % 3]))
    # objectives that are undefined (NaN) on part of the box: NaN must rank as the worst value
    nan_shapes = [e for e in shapes_h1() + shapes_h2() if not any(v.startswith("CMA") or v == "LOC" for v in e)]
    for k, eng in enumerate(nan_shapes if tier == "thorough" else nan_shapes[::2]):
        for mx in (False, True):
            for sd in range(3):
                descs.append(dict(engines=list(eng), gens=1 + k % 2, maximize=mx, obj="nanhole", Mh=3, seed=s + sd, sprout={"kind": ("simple", "nbc")[k % 2], "L": 2}))
    # objective values that differ only in the last few ulps (7 + 1e-12 * sphere): exact comparisons are needed
    for k, eng in enumerate(shapes_h1() + shapes_h2()[::2]):
        for mx in (False, True):
            descs.append(dict(engines=list(eng), gens=2, maximize=mx, obj="tiny_offset", Mh=4, seed=s, sprout={"kind": ("simple", "nbc")[k % 2], "L": 2}))
    # an objective that returns the direction's BEST infinity on a small region (-inf when minimising): a legal, unbeatable value
    for k, eng in enumerate([("SEA", "DE"), ("DE",), ("SHADE", "SEA"), ("LHS", "GA"), ("MWEA",), ("SEAX", "CMAf")]):
        for mx in (False, True):
            descs.append(dict(engines=list(eng), gens=2, maximize=mx, obj="goodinf", Mh=5, seed=s + k, pop=10, sprout={"kind": ("simple", "nbc")[k % 2], "L": 2}, box="B_sym"))
    # unattended runs (tree.run(), no accessor is read before the end), with roots that do not carry their best forward
    for k, eng in enumerate([("MWEA", "DE"), ("LHS", "SEA"), ("SOB", "CMAf"), ("MWEA", "SEA", "DE"), ("LHS", "DE", "CMAf"), ("SEA", "DE"), ("SOB",), ("MWEA",), ("SHADE", "SOB", "DE"), ("GA", "LHS", "SEA")]):
        for mx in (False, True):
            descs.append(dict(engines=list(eng), gens=1 + k % 2, maximize=mx, obj=objs[k % 3], Mh=5, seed=s + k, drive="run", unattended=True, kelites=(1, 0)[k % 2],
                              gsc=({"kind": "metaepoch", "n": 5}, {"kind": "evals", "n": 150})[k % 2], sprout={"kind": ("simple", "nbc")[k % 2], "L": 2}, box=("B_asym", "B_sym")[k % 2]))
    # the direction flag given as numpy.bool_ (the result of a numpy comparison) or as 0 / 1
    for k, d in enumerate(descs):
        if k % 3 == 2:
            d["maximize_type"] = ("npbool", "int")[(k // 3) % 2]
    # beyond the small scope (hmsmc/scale.py): run once each
    from ..scale import big_population_worlds, long_history_worlds

    descs += big_population_worlds(tier, seed) + long_history_worlds(tier, seed)
    us = [{"kind": "run", "descs": c} for c in chunks(descs, 12)]
    # a second memoising problem (use_cache=True) with ANOTHER objective in the same process, same seed and box: the first
    # one's values must not be served to it
    for k, eng in enumerate([("SEA", "DE"), ("LHS", "SEA"), ("DE",), ("SHADE", "SOB"), ("GA", "CMAf"), ("SOB",)]):
        first = dict(engines=list(eng), gens=1, obj="twofunnel", Mh=3, seed=s + k, sprout={"kind": "simple", "L": 2}, use_cache=True, choices="", box="B_asym", maximize=bool(k % 2))
        us.append({"kind": "run", "descs": [dict(first, obj="sphere_in", gens=2, Mh=4, prelude=[first], unattended=bool(k % 2), drive=("steps", "run")[k % 2])]})
    nmax = 120 if tier == "quick" else 300
    for box in ("B_asym", "B_dec"):
        us.append({"kind": "budgets", "box": box, "nmax": nmax, "seed": s})
    us.append({"kind": "budgets", "box": "B_asym", "nmax": 60, "seed": 0})  # seed 0 is a seed like any other
    return us


def _nontrivial(x):
    return "best improved during the run" in x.flags


def _budgets(res, unit):
    box, nmax, seed = unit["box"], unit["nmax"], unit["seed"]
    runs = {}
    for N in range(1, nmax + 1):
        cf, r = minimize_run(box, "twofunnel", seed, maxfun=N)
        runs[N] = (cf.calls, cf.vals, r)
        res.executions += 1
        res.by_bound[0] += 1
        res.status["ok"] += 1
        res.states.add(h64(("budget", box, N, len(cf.calls))))
        rep = {"check": ID, "unit": unit, "desc": {"minimize": {"maxfun": N}, "box": box, "seed": seed}, "dev": []}
        if cf.vals and r.fun != min(cf.vals):
            res.add_violation(ID, "C04/minimize-fun-not-min", f"minimize(maxfun={N}) returned fun={r.fun}, minimum of everything fun returned is {min(cf.vals)}", {}, rep)
        import numpy as np
        if cf.vals and r.fun == min(cf.vals):
            # x must be a point at which fun returned that value
            xb = np.asarray(r.x, dtype=float).tobytes()
            if not any(c == xb and v == r.fun for c, v in zip(cf.calls, cf.vals)):
                res.add_violation(ID, "C04/minimize-x-not-evaluated", f"minimize(maxfun={N}) returned an x at which fun never returned fun={r.fun}", {}, rep)
    Ns = sorted(runs)
    for a in Ns:
        ca, va, ra = runs[a]
        for b in Ns:
            if b <= a:
                continue
            cb, vb, rb = runs[b]
            res.extra["budget pairs compared"] += 1
            res.transitions.add(h64(("pair", box, a, b)))
            rep = {"check": ID, "unit": unit, "desc": {"minimize": {"maxfun": [a, b]}, "box": box, "seed": seed}, "dev": []}
            if cb[: len(ca)] != ca:
                res.add_violation(ID, "C04/budget-prefix", f"call log of maxfun={a} is not a prefix of the call log of maxfun={b}", {}, rep)
            if rb.fun > ra.fun:
                res.add_violation(ID, "C04/larger-budget-worse", f"maxfun={b} gives fun={rb.fun} worse than maxfun={a} fun={ra.fun}", {}, rep)
            if len(cb) > len(ca):
                res.nontrivial.add(h64(("pair", box, a, b)))
    res.configs += 1
    res.configs_completed += 1


def run_unit(unit):
    res = Result()
    if unit["kind"] == "run":
        run_descs(res, ID, unit, unit["descs"], [C04M], _nontrivial)
    else:
        _budgets(res, unit)
    return res


def finish(res, tier):
    if res.flags["best == best observed"] < 200 or res.flags["best improved during the run"] < 200:
        raise Vacuous("best-individual clauses hardly exercised")
    if res.flags["run with NaN objective values"] < 50:
        raise Vacuous("NaN-valued objective hardly exercised")
    if res.flags["unattended run judged at its end"] < 10:
        raise Vacuous("unattended runs not exercised")
    if res.extra["budget pairs compared"] < 1000:
        raise Vacuous("budget pairs not compared")
    if res.configs_completed < res.configs:
        raise Vacuous(f"{res.configs - res.configs_completed} configurations without any completed execution")
    return {"budget_pairs_compared": res.extra["budget pairs compared"]}


def replay(rep):
    if "minimize" in rep["desc"]:
        r = Result()
        _budgets(r, rep["unit"])
        return r.violations
    return replay_run([C04M], rep)
