"""C12 - elitist engines never lose ground; population size is constant."""
from __future__ import annotations

import numpy as np

from ..explorer import Monitor, Result, Vacuous
from ..opworld import ENGINE_OPS
from ..rngshim import Shim
from ..runlib import chunks, replay_run, run_descs, shapes_h1, shapes_h2, shapes_h3_cover
from ..world import POP_ENGINES, POP_SIZE

ID = "C12"
RULE = (
    "RUN: SEA variants x k_elites {1,2} x p_mutation {1, 0.5}, MWEA, DE, DEd, SHADE, CMA-ES as root and as child x objectives {sphere_in, plateau, "
    "const, twofunnel} x both directions x generations {1,3}: every consecutive generation pair of every deme: size == configured size (CMA-ES: "
    "its first generation's), best never worse (SEA with >= 1 elite, DE, SHADE), sorted fitness vectors dominate componentwise (DE, SHADE); OP: "
    "one engine step on tie / plateau / duplicate / face populations under the RNG answer menu with <= 1 (quick) / <= 2 (thorough) deviations "
    "over all draw calls; non-trivial = a pair of generations in which the population actually changed"
)
ASSUMPTIONS = ["alphabets of DESIGN.md section 4", "MWEA is held to the size clause only (it has no elite)"]
EXPLANATION = "state = canonical tree census (RUN) / (operator, population, answer vector, produced points) (OP)"
ELITIST = {"SEA", "SEAX", "GA", "SEAA", "DE", "DEd", "SHADE", "SHADE2", "GA_p", "SEAX_p", "SEA_p", "UEAm", "UEA3", "UEAi"}
ONE_TO_ONE = {"DE", "DEd", "SHADE", "SHADE2"}


def judge_pair(x, prev, cur, engine, maximize, where, size=None):
    fp = np.array([i.fitness for i in prev], dtype=float)
    fc = np.array([i.fitness for i in cur], dtype=float)
    x.extra_count("C12 generation pairs")
    if size is not None and len(cur) != size:
        x.violate(f"C12/size:{engine}", f"{where}: generation has {len(cur)} individuals, configured size {size}")
        return
    if len(cur) != len(prev):
        x.violate(f"C12/size-changed:{engine}", f"{where}: size changed from {len(prev)} to {len(cur)}")
        return
    if fp.tobytes() != fc.tobytes():
        x.flag("population changed between generations")
    if engine not in ELITIST or not len(fp):
        return
    sgn = -1.0 if maximize else 1.0
    # NaN (undefined objective) ranks worst: replace by +inf in the minimisation view
    vp = np.where(np.isnan(fp), np.inf, sgn * fp)
    vc = np.where(np.isnan(fc), np.inf, sgn * fc)
    if np.isnan(fp).any() or np.isnan(fc).any():
        x.flag("generation with NaN fitness values")
    bp, bc = vp.min(), vc.min()
    if bc > bp:
        x.violate(f"C12/best-got-worse:{engine}", f"{where}: best fitness went from {sgn * bp} to {sgn * bc}", engine=engine)
    if engine in ONE_TO_ONE:
        sp, sc = np.sort(vp), np.sort(vc)
        if np.any(sc > sp):
            k = int(np.argmax(sc > sp))
            x.violate(f"C12/kth-best-got-worse:{engine}", f"{where}: the {k + 1}-th best fitness went from {sgn * sp[k]} to {sgn * sc[k]}")


class RunMon(Monitor):
    def __init__(self, x):
        super().__init__(x)
        self.prev = None

    def on(self, kind, tree, info):
        # the population the engine REALLY breeds from has the configured size too: with mutation probability 1 every member of every
        # generation is a new point, so a SEA-family / DE / SHADE deme that completes a metaepoch evaluates exactly generations x size points
        if kind != "boundary":
            return
        x = self.x
        cur = {d.id: (d.n_evaluations, d.metaepoch_count, d.is_active, l) for l, d in tree.all_demes}
        if self.prev is not None and not x.desc.get("use_cache") and x.desc.get("pmut", 1.0) == 1.0 and x.desc.get("cutoff") is None:
            gens_cfg = x.desc.get("gens", 1)
            for i, (nev, me, act, l) in cur.items():
                p = self.prev.get(i)
                e = x.desc["engines"][l]
                if p is None or not (p[2] and act) or me != p[1] + 1 or e not in ("SEA", "SEAX", "SEAA", "UEAm", "DE", "DEd", "SHADE"):
                    continue
                g = gens_cfg[l] if isinstance(gens_cfg, (list, tuple)) else gens_cfg
                size = x.desc.get("pop", POP_SIZE.get(e))
                if e == "SHADE" and size < 4:
                    continue
                x.extra_count("C12 metaepochs whose evaluation count was compared with generations x size")
                # (equal to, not just at most: DE / SHADE trials that coincide with their parent are not re-evaluated, hence '<=' for them)
                exact = e in ("SEA", "SEAX", "SEAA", "UEAm")
                if (nev - p[0] != g * size) if exact else (nev - p[0] > g * size):
                    x.violate(f"C12/evaluations-per-metaepoch:{e}", f"{e} deme {i} evaluated {nev - p[0]} points in one metaepoch of {g} generations, configured size {size}: "
                              "the population it breeds from is not the configured size")
        self.prev = cur

    def end(self, tree):
        x = self.x
        if tree is None:
            return
        engines = x.desc["engines"]
        for l, d in tree.all_demes:
            e = engines[l]
            typ = type(d).__name__
            if e not in POP_ENGINES and typ != "CMADeme":
                continue
            hist = d.history
            size = x.desc.get("pop", POP_SIZE.get(e)) if e in POP_ENGINES else len(hist[0])
            if len(hist[0]) != size:
                x.violate(f"C12/size:{e}", f"{typ} {d.id} generation 0 has {len(hist[0])} individuals, configured size {size}")
            for gi in range(1, len(hist)):
                judge_pair(x, hist[gi - 1], hist[gi], e, x.w.maximize, f"{typ} {d.id} generation {gi}", size)


class OpMon(Monitor):
    def on(self, kind, tree, info):
        if kind != "op_done":
            return
        x = self.x
        prev = info["parents"]
        for gi, gen in enumerate(info["generations"]):
            judge_pair(x, prev, gen, info["op"], x.w.maximize, f"{info['op']} step {gi + 1} on population '{x.desc['pop']}'", len(info["parents"]))
            prev = gen


def _nontrivial(x):
    return "population changed between generations" in x.flags


def units(tier, seed):
    s = 1 + seed % 1000
    descs = []
    shapes = [e for e in shapes_h1() + shapes_h2() if any(v in POP_ENGINES or v.startswith("CMA") for v in e)]
    if tier == "thorough":
        shapes += [e for e in shapes_h3_cover() if any(v in POP_ENGINES for v in e)]
    objs = ("sphere_in", "plateau", "const", "twofunnel", "tiny_offset")
    k = 0
    for eng in shapes:
        for mx in (False, True):
            for gens in (1, 3):
                k += 1
                descs.append(dict(engines=list(eng), gens=gens, obj=objs[k % 5], maximize=mx, Mh=3, seed=s, kelites=1 + k % 2, pmut=(1.0, 0.5)[(k // 2) % 2], observing_gsc=bool((k // 3) % 2),
                                  sprout={"kind": ("simple", "nbc")[(k // 4) % 2], "L": 2}, hib=bool(k % 5 == 0)))
    # population sizes not divisible by the number of winners per election (MWEA) / odd sizes
    for eng in [e for e in shapes if "MWEA" in e or "SEAX" in e or "GA" in e][::2]:
        for pop in (5, 7):
            k += 1
            descs.append(dict(engines=list(eng), gens=2, obj=objs[k % 5], maximize=bool(k % 2), Mh=3, seed=s, pop=pop, pmut=(1.0, 0.5)[k % 2], sprout={"kind": "simple", "L": 2}))
    # very small populations: (1+1) and (2+k) SEA
    for eng in [e for e in shapes if all(v in ("SEA", "SEAX", "GA", "SEAA") for v in e)]:
        for mx in (False, True):
            for pop in (1, 2):
                k += 1
                descs.append(dict(engines=list(eng), gens=3, obj=objs[k % 5], maximize=mx, Mh=3, seed=s, kelites=1 + k % 2, pop=pop, pmut=(1.0, 0.5)[k % 2], sprout={"kind": "simple", "L": 2}))
    # objective undefined (NaN) on part of the box: NaN ranks worst, the best *number* must not be lost
    for eng in [e for e in shapes if not any(v.startswith("CMA") or v == "LOC" for v in e)][::2]:
        for mx in (False, True):
            k += 1
            descs.append(dict(engines=list(eng), gens=3, obj=("nanhole", "nanhalf")[k % 2], maximize=mx, Mh=3, seed=s + k % 3, kelites=1 + k % 2, sprout={"kind": "simple", "L": 2}))
    # user-assembled engines (BaseSEA subclasses): no mating selection, three offspring per parent, random immigrants
    for eng in [("UEAm",), ("UEA3",), ("UEAi",), ("UEAm", "DE"), ("SEA", "UEA3"), ("UEA3", "UEAm"), ("LHS", "UEAi"), ("UEAi", "UEA3", "UEAm")]:
        for mx in (False, True):
            for pop in (6, 5):
                k += 1
                descs.append(dict(engines=list(eng), gens=1 + k % 3, obj=objs[k % 5], maximize=mx, Mh=3, seed=s + k % 2, kelites=1 + k % 3, pop=pop, pmut=(1.0, 0.5)[k % 2],
                                  sprout={"kind": ("simple", "nbc")[k % 2], "L": 2}))
    # children sampled with a spread that is large against the box / around a seed in a corner (few draws are accepted), and
    # levels that optimise different objectives over the same box (a seed is worth something else one level down)
    for eng in [e for e in shapes_h2() if e[1] in POP_ENGINES][:: (1 if tier == "thorough" else 3)]:
        k += 1
        descs.append(dict(engines=list(eng), gens=2, obj=("lin_corner", "sphere_in")[k % 2], maximize=bool(k % 2), Mh=3, seed=s + k % 3, kelites=1 + k % 2, pop=(6, 10)[k % 2],
                          std_factor=(2.0, 3.5, 1.0)[k % 3], box=("B_dec", "B_3d", "B_asym")[k % 3], sprout={"kind": ("simple", "nbc")[k % 2], "L": 2}))
        descs.append(dict(engines=list(eng), gens=2, obj=("twofunnel", "sphere_in")[k % 2], maximize=bool(k % 2), Mh=3, seed=s + k % 3, kelites=1 + k % 2, levelshift=True,
                          sprout={"kind": ("simple", "nbc")[k % 2], "L": 2}))
    # beyond the small scope (hmsmc/scale.py): run once each
    from ..scale import big_population_worlds

    descs += big_population_worlds(tier, seed)
    us = [{"kind": "run", "descs": c} for c in chunks(descs, 30)]
    ops = []
    for op in ENGINE_OPS:
        for pop in ("tied", "duplicates", "upper", "corners", "interior", "mixed"):
            for mx in (False, True):
                for ke in (1, 2):
                    if ke == 2 and op in ONE_TO_ONE | {"MWEA"}:
                        continue
                    ops.append(dict(op=op, pop=pop, box="B_asym", obj=("plateau" if pop in ("tied", "duplicates") else "sphere_in"), maximize=mx, seed=s, choices="R", kelites=ke))
    b = 1 if tier == "quick" else 2
    us += [{"kind": "op", "descs": c, "bound": b} for c in chunks(ops, 4 if b == 2 else 16)]
    return us


def run_unit(unit):
    res = Result()
    if unit["kind"] == "run":
        run_descs(res, ID, unit, unit["descs"], [RunMon], _nontrivial)
    else:
        run_descs(res, ID, unit, unit["descs"], [OpMon], _nontrivial, bound=unit["bound"], kinds="R", shim_factory=Shim)
    return res


def finish(res, tier):
    if res.extra["C12 generation pairs"] < 10000:
        raise Vacuous("fewer than 10000 generation pairs judged")
    if len(res.nontrivial) < 500:
        raise Vacuous("few executions with a changing population")
    if res.configs_completed < res.configs:
        raise Vacuous(f"{res.configs - res.configs_completed} configurations without any completed execution")
    return {"generation_pairs_judged": res.extra["C12 generation pairs"]}


def replay(rep):
    if "op" in rep["desc"]:
        return replay_run([OpMon], rep, shim_factory=Shim)
    return replay_run([RunMon], rep)
