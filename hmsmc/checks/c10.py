"""C10 - sprout candidates come from the right populations; filters keep the best.

The filters are called directly, on REAL trees brought into many occupancies by explored runs
("start from non-initial states"): at every sprouting round with a not yet seen occupancy the
monitor enumerates all synthetic candidate sets (all weak orderings of n <= N candidates split
over the round's parents) x limits x chains and compares with a reference specification.
"""
from __future__ import annotations

import itertools

import numpy as np

from ..explorer import Monitor, Result, Vacuous
from ..monitors import key_of
from ..runlib import chunks, lifecycle_descs, replay_run, run_descs, run_split_unit, shapes_h2, shapes_h3_cover, split_units
from ..world import h64

from pyhms.core.individual import Individual  # noqa: E402
from pyhms.sprout.sprout_candidates import DemeCandidates, DemeFeatures  # noqa: E402
from pyhms.sprout.sprout_filters import DemeLimit, LevelLimit, SkipSameSprout  # noqa: E402
from pyhms.sprout.sprout_generators import BestPerDeme, NBC_Generator, NBCGeneratorWithLocalMethod, SproutCandidatesGenerator  # noqa: E402
from pyhms.sprout.sprout_mechanisms import SproutMechanism  # noqa: E402

ID = "C10"
RULE = (
    "trees = every sprouting round of the explored lifecycle worlds (scripted and shipped mechanisms, heights 2-3, both directions, G/L/S "
    "deviations <= 1 quick / <= 2 thorough): 1-3 parents, 0..L active and 0..many inactive demes on the target level; at each round with a new "
    "occupancy signature: all weak orderings of n <= 4 (quick) / n <= 5 (thorough) candidates x all splits over the parents x limits 1..3 x both "
    "tree-chain orders, applied through the real DemeLimit / LevelLimit / SkipSameSprout / SproutMechanism and compared with the reference "
    "specification (subset, sizes, no dropped candidate strictly better than a kept one, nothing removed when everything fits, SkipSameSprout "
    "clauses); generators: keys and candidates of BestPerDeme / NBC / NBC-with-local-method at every round of every run; non-trivial = a filter "
    "application in which the filter had to choose (more candidates than it may keep)"
)
ASSUMPTIONS = [
    "synthetic candidates are fresh Individual objects carrying the level's problem (direction) with chosen fitness values",
    "only occupancies reachable by real runs are used (the limit itself bounds the number of active demes)",
]
EXPLANATION = "state = canonical tree census; filter applications are counted separately (filter_applications)"
_WO = {}


def weak_orderings(n):
    if n not in _WO:
        out = set()
        for v in itertools.product(range(n), repeat=n):
            r = sorted(set(v))
            if r == list(range(len(r))):
                out.add(v)
        _WO[n] = sorted(out)
    return _WO[n]


def splits(n, k):
    """All ways to give n ordered candidates to k parents (contiguous blocks, possibly empty)."""
    if k == 1:
        return [(n,)]
    out = []
    for first in range(n + 1):
        for rest in splits(n - first, k - 1):
            out.append((first,) + rest)
    return out


class FixedGenerator(SproutCandidatesGenerator):
    def __init__(self, cands):
        self.cands = cands

    def __call__(self, tree):
        return self.cands


class C10Monitor(Monitor):
    NMAX = 4
    seen = None  # per-process cache of occupancy signatures (shared by the executions of a unit)

    def __init__(self, x):
        super().__init__(x)
        if C10Monitor.seen is None:
            C10Monitor.seen = set()
        self.sprouted = {}  # parent id -> genomes of the seeds sprouted from it (recorded when a child is first seen)
        self.known_children = set()

    def has_skipsame(self):
        sp = self.x.desc["sprout"]
        return any(f.get("kind") == "skipsame" for f in sp.get("tree_chain", []) if isinstance(f, dict))

    # ------------------------------------------------------------------ generators / records
    def on(self, kind, tree, info):
        x = self.x
        if kind == "round_begin":
            self.generators(tree)
            self.synthetic(tree)
            self.pops = {d.id: [id(i) for i in d.current_population] for _, d in tree.all_demes}
            # 'the current population' is the last recorded generation itself - the very same individuals, none dropped, merged, re-ordered or copied
            for _, d in tree.all_demes:
                h = d.history
                if h and [id(i) for i in d.current_population] != [id(i) for i in h[-1]]:
                    x.violate(f"C10/current-population-is-not-the-last-generation:{type(d).__name__}", f"{type(d).__name__} {d.id}: current_population has {len(d.current_population)} "
                              f"individuals, the last recorded generation {len(h[-1])} (or not the same objects in the same order)")
                x.extra_count("C10 current populations compared with the last generation")
        elif kind == "boundary":
            for _, p in tree.all_demes:
                for c in p.children:
                    if c.id not in self.known_children:
                        self.known_children.add(c.id)
                        sd = getattr(c, "_sprout_seed", None)
                        if sd is not None:
                            self.sprouted.setdefault(p.id, []).append(np.asarray(sd.genome, dtype=float).copy())
        elif kind == "round_end":
            if self.has_skipsame():
                # the mechanism contains SkipSameSprout: nothing it returns for a parent may equal a seed that parent sprouted before
                for d, c in info["seeds"].items():
                    for ind in c.individuals:
                        g = np.asarray(ind.genome, dtype=float)
                        if any(np.array_equal(g, s0) for s0 in self.sprouted.get(d.id, [])):
                            x.violate("C10/skipsame-let-through-own:run", f"the mechanism (with SkipSameSprout) returned for parent {d.id} a candidate bitwise equal to a seed already sprouted from it")
                        else:
                            x.flag("returned seed compared with the parent's earlier seeds")
            mech = x.w.mechanism
            gen_hist = getattr(mech, "_generated_deme_ids_to_candidates_history", None)
            used_hist = getattr(mech, "_used_deme_ids_to_candidates_history", None)
            if gen_hist and used_hist:
                g, u = gen_hist[-1], used_hist[-1]
                for did, cand in u.items():
                    gk = [key_of(i) for i in g[did].individuals] if did in g else []
                    for i in cand.individuals:
                        if key_of(i) not in gk:
                            x.violate("C10/filter-added-candidate", f"the filter chain returned for deme {did} a candidate that was not generated for it")
                x.flag("mechanism records compared")
            for d, c in info["seeds"].items():
                if not c.individuals:
                    x.violate("C10/empty-entry-returned", f"get_seeds returned an empty candidate list for deme {d.id}")

    def generators(self, tree):
        x = self.x
        mx = x.w.maximize
        nl = len(tree.levels)
        active_nonleaf = {id(d): d for l, d in tree.all_demes if d.is_active and l < nl - 1}
        gens = [("BestPerDeme", BestPerDeme()), ("NBC_Generator", NBC_Generator(2.0, 1.0)), ("NBC_Generator/0.7", NBC_Generator(3.0, 0.7))]
        if nl >= 3:
            gens.append(("NBCGeneratorWithLocalMethod", NBCGeneratorWithLocalMethod(2.0, 1.0)))
        for name, g in gens:
            try:
                out = g(tree)
            except Exception as e:
                x.note(f"generator {name} raised {type(e).__name__}")
                continue
            x.extra_count("C10 generator calls")
            for d, c in out.items():
                local_extra = False
                if id(d) not in active_nonleaf:
                    if name == "NBCGeneratorWithLocalMethod" and d.level == nl - 2 and not d.is_active:
                        local_extra = True
                    else:
                        x.violate(f"C10/generator-key:{name}", f"{name} proposes candidates for deme {d.id} (level {d.level}, active={d.is_active}) which is not an active non-leaf deme")
                        continue
                if name == "NBCGeneratorWithLocalMethod" and not local_extra and d.level == nl - 2:
                    x.violate(f"C10/generator-key:{name}", f"{name} clusters the active deme {d.id} of the second-to-last level")
                pop = d.current_population
                for ind in c.individuals:
                    if local_extra:
                        if not any(ind is i for i in d.all_individuals) or any(i > ind for i in d.all_individuals):
                            x.violate(f"C10/generator-candidate:{name}", f"{name}: candidate offered for the finished deme {d.id} is not its best individual")
                    elif not any(ind is i for i in pop):
                        x.violate(f"C10/generator-candidate:{name}", f"{name}: a candidate for deme {d.id} is not a member of its current population")
                if name == "BestPerDeme":
                    fits = [i.fitness for i in pop]
                    best = max(fits) if mx else min(fits)
                    if len(c.individuals) != 1 or c.individuals[0].fitness != best:
                        x.violate("C10/bestperdeme-not-best", f"BestPerDeme proposes fitness {[i.fitness for i in c.individuals]} for deme {d.id}, current best is {best}")
            if name != "NBCGeneratorWithLocalMethod":
                missing = [d.id for d in active_nonleaf.values() if d not in out]
                if missing:
                    x.violate(f"C10/generator-missing-deme:{name}", f"{name} offers nothing for active non-leaf demes {missing}")

    # ------------------------------------------------------------------ synthetic filter cases
    def synthetic(self, tree):
        x = self.x
        mx = x.w.maximize
        nl = len(tree.levels)
        for plevel in range(nl - 1):
            parents = [d for d in tree.levels[plevel] if d.is_active]
            if not parents:
                continue
            parents = parents[:3]
            target = tree.levels[plevel + 1]
            act = sum(1 for d in target if d.is_active)
            inact = len(target) - act
            with_children = tuple(bool(p.children) for p in parents)
            big = sum(len(target) > t for t in (32, 64, 128, 256))  # beyond the small scope: dozens / hundreds of demes on the target level
            sig = (nl, plevel, len(parents), act, min(inact, 3), mx, with_children, big)
            if sig in C10Monitor.seen:
                continue
            C10Monitor.seen.add(sig)
            if big:
                x.flag(f"target level with more than {(32, 64, 128, 256)[big - 1]} demes")
            sig3 = ("large-sets", mx, len(parents), act)
            if sig3 not in C10Monitor.seen and act <= 10:
                C10Monitor.seen.add(sig3)
                self.large_sets(tree, plevel, parents, act, mx)
            x.flag(f"occupancy parents={len(parents)} active={act} inactive={min(inact, 3)}")
            self.enumerate_filters(tree, plevel, parents, act, mx)
            self.skip_same(tree, plevel, parents, mx)
        sig2 = ("all-levels", nl, mx, tuple((sum(1 for d in lv if d.is_active), sum(1 for d in lv if d.is_active and d.children)) for lv in tree.levels[:-1]))
        if sig2 not in C10Monitor.seen:
            C10Monitor.seen.add(sig2)
            self.skip_same_all_levels(tree, mx)

    def mk(self, problem, fits, offset=0.0):
        d = len(problem.bounds)
        tail = ([0.5, 0.25, -1.0, 2.0] * 10)[: max(d - 2, 0)]
        return [Individual(np.array(([1000.0 + 7.0 * i + offset, -3.0 * i] + tail)[:d]), problem, float(f)) for i, f in enumerate(fits)]

    def enumerate_filters(self, tree, plevel, parents, act, mx):
        x = self.x
        problem = x.w.level_configs[plevel].problem
        btr = (lambda a, b: a > b) if mx else (lambda a, b: a < b)
        sgn = -1.0 if mx else 1.0
        # a limit below the number of demes already active on ANY level is not a reachable configuration
        act = max([act] + [sum(1 for d in lv if d.is_active) for lv in tree.levels[1:]])
        act_t = sum(1 for d in tree.levels[plevel + 1] if d.is_active)
        nan = float("nan")
        btr0 = btr
        btr = lambda a, b: (not a != a) and (b != b or btr0(a, b))  # NaN (undefined objective) is worse than any number
        for n, base in [(n, 0.0) for n in range(1, self.NMAX + 1)] + [(n, 1e12) for n in (2, 3)] + [(n, "nan") for n in (2, 3)]:
            # base 1e12: fitness values that agree to 12 significant digits (distinct, but 'close'); base "nan": one candidate is NaN
            for wo in weak_orderings(n):
                if base == "nan":
                    if wo.count(0) != 1:
                        continue
                    fits = [nan if v == 0 else sgn * v for v in wo]
                else:
                    fits = [sgn * (base + v) for v in wo]
                for sp in splits(n, len(parents)):
                    for L in (1, 2, 3):
                        if act > L:
                            continue  # not reachable under this limit
                        inds = self.mk(problem, fits)
                        groups, k = [], 0
                        for c in sp:
                            groups.append(inds[k : k + c])
                            k += c
                        cands = {p: DemeCandidates(list(g), DemeFeatures()) for p, g in zip(parents, groups)}
                        out = LevelLimit(L)(cands, tree)
                        x.extra_count("C10 filter applications")
                        self.judge_level(out, parents, groups, inds, L - act_t, btr, f"LevelLimit({L}) active={act_t}", mx, fits, sp)
                # DemeLimit on one parent
                for lim in (0, 1, 2, 3):
                    inds = self.mk(problem, fits)
                    out = DemeLimit(lim)({parents[0]: DemeCandidates(list(inds), DemeFeatures())}, tree)
                    x.extra_count("C10 filter applications")
                    kept = out[parents[0]].individuals
                    self.subset(kept, inds, f"DemeLimit({lim})")
                    dropped = [i for i in inds if not any(i is k for k in kept)]
                    if len(inds) > lim:
                        x.flag("filter had to choose")
                    if len(kept) != min(lim, len(inds)):
                        x.violate("C10/demelimit-size", f"DemeLimit({lim}) kept {len(kept)} of {len(inds)} candidates (fitness {fits}, maximize={mx})")
                    if any(btr(d.fitness, k.fitness) for d in dropped for k in kept):
                        x.violate(f"C10/demelimit-dropped-better:maximize={mx}", f"DemeLimit({lim}) dropped a candidate strictly better than a kept one (fitness {fits}, kept {[k.fitness for k in kept]}, maximize={mx})")
                # composed mechanism, both tree-chain orders
                if n >= 2:
                    for L in (1, 2):
                        if act > L:
                            continue
                        for order in (0, 1):
                            inds = self.mk(problem, fits)
                            sp = splits(n, len(parents))[len(splits(n, len(parents))) // 2]
                            groups, k = [], 0
                            for c in sp:
                                groups.append(inds[k : k + c])
                                k += c
                            cands = {p: DemeCandidates(list(g), DemeFeatures()) for p, g in zip(parents, groups)}
                            chain = [LevelLimit(L), SkipSameSprout()] if order == 0 else [SkipSameSprout(), LevelLimit(L)]
                            mech = SproutMechanism(FixedGenerator(cands), [DemeLimit(2)], chain)
                            seeds = mech.get_seeds(tree)
                            x.extra_count("C10 filter applications")
                            tot = 0
                            for p, g in zip(parents, groups):
                                kept = seeds[p].individuals if p in seeds else []
                                self.subset(kept, g, "composed mechanism")
                                tot += len(kept)
                                if len(kept) > 2:
                                    x.violate("C10/composed-demelimit", f"composed mechanism kept {len(kept)} candidates of one deme under DemeLimit(2)")
                            if tot > max(0, L - act_t):
                                x.violate("C10/composed-levellimit" + (":nan-candidate" if any(f != f for f in fits) else ""),
                                          f"composed mechanism (order {order}) kept {tot} candidates with {L - act_t} free slots (fitness {fits})")
                            if any(not c.individuals for c in seeds.values()):
                                x.violate("C10/empty-entry-returned", "get_seeds returned an empty candidate list")

    def large_sets(self, tree, plevel, parents, act, mx):
        """Beyond the small scope: 150 / 300 candidates with distinct fitness values in one call (threshold-switched code paths)."""
        x = self.x
        problem = x.w.level_configs[plevel].problem
        btr = (lambda a, b: a > b) if mx else (lambda a, b: a < b)
        act = max([act] + [sum(1 for d in lv if d.is_active) for lv in tree.levels[1:]])
        act_t = sum(1 for d in tree.levels[plevel + 1] if d.is_active)
        for n in (150, 300):
            fits = [float((i * 37) % n) * (-1.0 if mx else 1.0) + 0.001 * i for i in range(n)]
            sp = [n // len(parents)] * len(parents)
            sp[0] += n - sum(sp)
            for L in (10, 40):
                if act > L:
                    continue
                inds = self.mk(problem, fits)
                groups, k = [], 0
                for c in sp:
                    groups.append(inds[k : k + c])
                    k += c
                out = LevelLimit(L)({p: DemeCandidates(list(g), DemeFeatures()) for p, g in zip(parents, groups)}, tree)
                x.extra_count("C10 filter applications")
                self.judge_level(out, parents, groups, inds, L - act_t, btr, f"LevelLimit({L}) active={act_t} on {n} candidates", mx, "(%d distinct values)" % n, sp)
            for lim in (10, 200):
                inds = self.mk(problem, fits)
                out = DemeLimit(lim)({parents[0]: DemeCandidates(list(inds), DemeFeatures())}, tree)
                kept = out[parents[0]].individuals
                self.subset(kept, inds, f"DemeLimit({lim})")
                dropped = [i for i in inds if not any(i is k for k in kept)]
                if len(kept) != min(lim, len(inds)):
                    x.violate("C10/demelimit-size", f"DemeLimit({lim}) kept {len(kept)} of {len(inds)} candidates (maximize={mx})")
                if dropped and kept and any(btr(d.fitness, k.fitness) for d in dropped[:: max(1, len(dropped) // 20)] for k in kept[:: max(1, len(kept) // 20)]):
                    x.violate(f"C10/demelimit-dropped-better:maximize={mx}", f"DemeLimit({lim}) on {n} candidates dropped a candidate strictly better than a kept one (maximize={mx})")
        x.flag("filters applied to 150 / 300 candidates at once")
        # a long target level (only the active / finished pattern of its demes matters to the filter): an old deme that is still active
        # behind dozens of finished ones, active demes scattered among finished ones
        class _D:
            def __init__(s, active):
                s.is_active, s._active, s._hibernating, s.children, s.level = active, active, False, [], plevel + 1

        class _T:
            def __init__(s, levels):
                s.levels = levels

        for pattern in ("A" + "." * 40 + "AA", "." * 70 + "A", "A." * 30 + "." * 40, "AAA" + "." * 300):
            fake = [_D(c == "A") for c in pattern]
            levels = [list(lv) for lv in tree.levels]
            levels[plevel + 1] = fake
            n_act = pattern.count("A")
            base = max([n_act] + [sum(1 for d in lv if d.is_active) for j, lv in enumerate(levels) if j >= 1 and j != plevel + 1])  # a reachable limit
            for L in (base, base + 2, base + 5):
                fits = [float((i * 7) % 11) * (-1.0 if mx else 1.0) + 0.001 * i for i in range(9)]
                inds = self.mk(problem, fits)
                groups = [inds[i :: len(parents)] for i in range(len(parents))]
                out = LevelLimit(L)({p: DemeCandidates(list(g), DemeFeatures()) for p, g in zip(parents, groups)}, _T(levels))
                x.extra_count("C10 filter applications")
                self.judge_level(out, parents, groups, inds, L - n_act, btr, f"LevelLimit({L}) on a level of {len(pattern)} demes, {n_act} of them active", mx, fits, "round-robin")
        x.flag("LevelLimit applied to target levels of 43-303 demes")

    def subset(self, kept, inds, what):
        for k in kept:
            if not any(k is i for i in inds):
                self.x.violate(f"C10/not-a-subset:{what.split('(')[0]}", f"{what} returned a candidate that was not in its input")

    def judge_level(self, out, parents, groups, inds, free, btr, what, mx, fits, sp):
        x = self.x
        kept = []
        for p, g in zip(parents, groups):
            k = out[p].individuals if p in out else []
            self.subset(k, g, what)
            kept.extend(k)
        dropped = [i for i in inds if not any(i is k for k in kept)]
        free = max(free, 0)
        ctx = f"{what}: fitness {fits} split {sp} maximize={mx} kept {[k.fitness for k in kept]}"
        nan_sfx = ":nan-candidate" if any(f != f for f in fits) else ""
        if len(inds) > free:
            x.flag("filter had to choose")
        if len(kept) > free:
            x.violate("C10/levellimit-more-than-free" + nan_sfx, f"kept {len(kept)} candidates with {free} free slots; {ctx}")
        if len(set(fits)) == len(fits) and not any(f != f for f in fits) and len(kept) != min(free, len(inds)):
            x.violate("C10/levellimit-not-exactly-filled", f"fitness values are distinct but {len(kept)} kept for {free} free slots; {ctx}")
        if len(inds) <= free and dropped:
            x.violate("C10/levellimit-dropped-though-fits", f"everything fits but {len(dropped)} candidates were removed; {ctx}")
        if any(btr(d.fitness, k.fitness) for d in dropped for k in kept):
            x.violate(f"C10/levellimit-dropped-better:maximize={mx}", f"a dropped candidate is strictly better than a kept one; {ctx}")

    def skip_same(self, tree, plevel, parents, mx):
        x = self.x
        problem = x.w.level_configs[plevel].problem
        all_children = [c for d in tree.levels[plevel] for c in d.children]
        seeds_all = [np.asarray(c._sprout_seed.genome, dtype=float) for c in all_children if getattr(c, "_sprout_seed", None) is not None]
        if not seeds_all:
            return
        for p in parents:
            own = [np.asarray(c._sprout_seed.genome, dtype=float) for c in p.children if getattr(c, "_sprout_seed", None) is not None]
            far = np.array(seeds_all[0]) + 12345.678
            cand_specs = [("far", far)]
            if own:
                cand_specs.append(("equal-own", own[-1].copy()))
                # the same point after a round trip through arithmetic: every coordinate two ulps away ('numerically equal')
                cand_specs.append(("equal-own", np.nextafter(np.nextafter(own[-1], np.inf), np.inf)))
            other = [s for s in seeds_all if not any(np.array_equal(s, o) for o in own)]
            if other:
                cand_specs.append(("equal-other", other[0].copy()))
            inds = [Individual(g, problem, float(i)) for i, (_, g) in enumerate(cand_specs)]
            out = SkipSameSprout()({p: DemeCandidates(list(inds), DemeFeatures())}, tree)
            x.extra_count("C10 filter applications")
            kept = out[p].individuals
            self.subset(kept, inds, "SkipSameSprout")
            for (name, g), ind in zip(cand_specs, inds):
                isin = any(ind is k for k in kept)
                if name == "far" and not isin:
                    x.violate("C10/skipsame-rejected-new", f"SkipSameSprout rejected a candidate that differs from every existing seed (parent {p.id})")
                if name == "equal-own" and isin:
                    x.violate("C10/skipsame-let-through-own", f"SkipSameSprout let through a candidate equal to a seed already sprouted from the same parent {p.id}")
            x.flag("skipsame " + "+".join(n for n, _ in cand_specs))


    def skip_same_all_levels(self, tree, mx):
        """One SkipSameSprout call with candidates of ALL active non-leaf demes (several levels at once)."""
        x = self.x
        nl = len(tree.levels)
        cands, specs = {}, {}
        for pl in range(nl - 1):
            problem = x.w.level_configs[pl].problem
            for p in tree.levels[pl]:
                if not p.is_active:
                    continue
                own = [np.asarray(c._sprout_seed.genome, dtype=float) for c in p.children if getattr(c, "_sprout_seed", None) is not None]
                level_seeds = [np.asarray(c._sprout_seed.genome, dtype=float) for d in tree.levels[pl] for c in d.children if getattr(c, "_sprout_seed", None) is not None]
                sp = [("far", np.full(len(x.w.box), 98765.4321 + pl))]
                if own:
                    sp.append(("equal-own", own[0].copy()))
                inds = [Individual(g, problem, float(i)) for i, (_, g) in enumerate(sp)]
                cands[p] = DemeCandidates(list(inds), DemeFeatures())
                specs[p] = (sp, inds, bool(level_seeds))
        levels_with_own = {p.level for p, (sp, _, _) in specs.items() if len(sp) > 1}
        if len(cands) < 2:
            return
        out = SkipSameSprout()(cands, tree)
        x.extra_count("C10 filter applications")
        if len(levels_with_own) >= 2:
            x.flag("skipsame with parents that already sprouted on two levels")
        for p, (sp, inds, _) in specs.items():
            kept = out[p].individuals if p in out else []
            self.subset(kept, inds, "SkipSameSprout")
            for (name, g), ind in zip(sp, inds):
                isin = any(ind is k for k in kept)
                if name == "far" and not isin:
                    x.violate("C10/skipsame-rejected-new", f"SkipSameSprout (all parents at once) rejected a candidate of {p.id} that differs from every existing seed")
                if name == "equal-own" and isin:
                    x.violate("C10/skipsame-let-through-own", f"SkipSameSprout (all parents at once) let through a candidate equal to a seed already sprouted from the same parent {p.id} (level {p.level})")


class C10MonitorT(C10Monitor):
    NMAX = 5


class C10MonitorS(C10Monitor):
    NMAX = 3


def _nontrivial(x):
    return "filter had to choose" in x.flags


def units(tier, seed):
    s = 1 + seed % 1000
    us = []
    b = 1 if tier == "quick" else 2
    for mode, desc in lifecycle_descs(tier, seed, maximize=(False, True)):
        if mode == "bounded":
            # one unit per world (not split by first deviation): the synthetic filter cases of an occupancy are
            # enumerated once per unit
            us.append({"kind": "lifedesc", "desc": desc, "bound": min(b, desc.get("max_bound", b)), "tier": tier})
    descs = []
    shapes = shapes_h2()[::2] + shapes_h3_cover()[::3] if tier == "quick" else shapes_h2() + shapes_h3_cover()
    for k, eng in enumerate(shapes):
        for mx in (False, True):
            sk = ("simple", "nbc", "nbclocal")[k % 3] if len(eng) == 3 else ("simple", "nbc")[k % 2]
            descs.append(dict(engines=list(eng), gens=1, maximize=mx, Mh=4, seed=s, sprout={"kind": sk, "L": 1 + k % 3},
                              lsc=[None] + [{"kind": "metaepoch", "m": 1 + k % 2}] * (len(eng) - 1), obj=("twofunnel", "plateau")[k % 2]))
    # long-lived intermediate demes: parents that have already sprouted exist on two levels in the same round
    for k, eng in enumerate([("DE", "SEA", "DE"), ("SEA", "DE", "CMAf"), ("SHADE", "GA", "LOC"), ("LHS", "DEd", "SOB"), ("SEAX", "CMAw", "SEA"), ("STUB", "STUBEA", "DE")]):
        for mx in (False, True):
            for sp in ({"kind": "scripted", "L": 3, "default": 1}, {"kind": "simple", "L": 3}, {"kind": "nbc", "L": 3}):
                descs.append(dict(engines=list(eng), gens=1, maximize=mx, Mh=5, seed=s + k, sprout=sp, lsc=[None, None, {"kind": "metaepoch", "m": 1 + k % 2}],
                                  obj=("twofunnel", "sphere_in")[k % 2], choices="S" if sp["kind"] == "scripted" else ""))
    us += [{"kind": "run", "descs": c, "tier": tier} for c in chunks(descs, 10)]
    # shipped / user-composed mechanisms (some with SkipSameSprout), a user printing the reports between steps
    from ..runlib import mechanism_descs

    md = [dict(d, choices="", print_at_boundaries=True, Mh=6) for d in mechanism_descs(tier, seed)]

    us += [{"kind": "run", "descs": c, "tier": tier, "small": True} for c in chunks(md, 6)]
    from ..runlib import reuse_sequences

    rs = reuse_sequences(tier, seed)
    for seq in rs:
        us.append({"kind": "run", "descs": seq, "tier": tier, "small": True})
    return us


def run_unit(unit):
    C10Monitor.seen = set()
    mon = C10MonitorS if unit.get("small") else (C10Monitor if unit.get("tier", "quick") == "quick" else C10MonitorT)
    if unit["kind"] == "run":
        return run_descs(Result(), ID, unit, unit["descs"], [mon], _nontrivial)
    if unit["kind"] == "lifedesc":
        from ..explorer import explore

        res = Result()
        explore(res, ID, {"kind": "lifedesc", "tier": unit.get("tier")}, unit["desc"], [mon], bound=unit["bound"], kinds="GLS", nontrivial_rule=_nontrivial)
        return res
    return run_split_unit(ID, unit, [mon], _nontrivial)


def finish(res, tier):
    if res.extra["C10 filter applications"] < 20000:
        raise Vacuous(f"only {res.extra['C10 filter applications']} filter applications")
    occ = [f for f in res.flags if f.startswith("occupancy")]
    if len(occ) < 6:
        raise Vacuous(f"only {len(occ)} distinct occupancies reached")
    if not any("parents=2" in f or "parents=3" in f for f in occ):
        raise Vacuous("no round with several parents")
    if not any(f.startswith("skipsame") and "equal-own" in f for f in res.flags):
        raise Vacuous("SkipSameSprout never exercised with an existing seed")
    if res.flags["skipsame with parents that already sprouted on two levels"] < 3:
        raise Vacuous("SkipSameSprout never exercised with sprouted parents on two levels in one call")
    if res.configs_completed < res.configs:
        raise Vacuous(f"{res.configs - res.configs_completed} configurations without any completed execution")
    return {"filter_applications": res.extra["C10 filter applications"], "generator_calls": res.extra["C10 generator calls"], "occupancies": sorted(occ)}


def replay(rep):
    C10Monitor.seen = set()
    return replay_run([C10MonitorT if rep["unit"].get("tier") == "thorough" else C10Monitor], rep)
