"""C05 - run() stops exactly at the global stop condition, with a bounded wind-down.

Every consult index k of every world is enumerated as the first point at which the global
condition holds (choice kind G, exactly one deviation = the whole space), plus every shipped
condition undeviated, plus minimize(maxiter / maxfun).
"""
from __future__ import annotations

import numpy as np

from ..explorer import Execution, Monitor, Result, Vacuous, explore
from ..runlib import replay_run, shapes_h1, shapes_h2, shapes_h3_cover
from ..world import EXPECTED_CLASS, census

ID = "C05"
RULE = (
    "worlds = engine mixes x generations x sprout mechanism (x hibernation in thorough); for each world a "
    "0-deviation run to learn the K consults of the global condition, then one execution per k in 0..K-1 in which the "
    "probe answers True from consult k on (kind G, one deviation = complete enumeration of 'first true at k'); shipped "
    "conditions run undeviated under the same oracle in both drives (run() and the verbatim step loop); the scripted lifecycle worlds with "
    "<= 2 (quick) / <= 3 (thorough) deviations over G, L and S together (first-true points after non-default sprout / stop histories); "
    "non-trivial = the first-true point fell strictly inside a metaepoch (a deme was mid-loop) while >= 2 demes were active"
)
ASSUMPTIONS = [
    "objectives, boxes and engine parameters from the finite alphabets of DESIGN.md section 4",
    "user-supplied global conditions are monotone (once true, stay true) - the forced verdict is sticky",
    "one generation's worth of evaluations = size of the deme's first generation (CMA-ES: lambda)",
]
EXPLANATION = "stateless exploration of the real DemeTree.run(); state = canonical tree census at each consult"


class C05Monitor(Monitor):
    def __init__(self, x):
        super().__init__(x)
        self.T = None
        self.prev = None
        self.rounds_after = 0
        self.consults_after = 0
        self.last_verdict = None
        self.me_at_consults = []

    def on(self, kind, tree, info):
        if kind == "consult":
            c = census(tree)
            self.last_verdict = info["verdict"]
            if self.T is None and info["verdict"]:
                self.T = dict(k=info["k"], census=c, me=tree.metaepoch_count, nlog=len(self.x.w.log), prev=self.prev)
            elif self.T is not None:
                self.consults_after += 1
            self.prev = c
        elif kind == "round_begin" and self.T is not None:
            self.rounds_after += 1
        elif kind == "boundary":
            # the harness drives the loop itself: counter == number of metaepochs performed
            if tree.metaepoch_count != info["k"]:
                self.x.violate(
                    "C05/counter-vs-steps",
                    f"metaepoch counter {tree.metaepoch_count} after {info['k']} performed metaepochs",
                )

    def end(self, tree):
        x = self.x
        T = self.T
        if T is None:
            x.note("never true (should not happen: horizon)")
            return
        cT, cE = T["census"], census(tree)
        if self.last_verdict is not True:
            x.violate("C05/returned-while-false", "run() returned although the last verdict given to it was False")
        if set(cE) != set(cT):
            x.violate(
                "C05/deme-sprouted-after-true",
                f"demes {sorted(set(cE) - set(cT))} appeared after the condition was first observed true",
                at_T=sorted(cT),
                at_return=sorted(cE),
            )
        if self.rounds_after:
            x.violate("C05/sprout-round-after-true", f"{self.rounds_after} sprouting round(s) after the condition was first true")
        if tree.metaepoch_count != T["me"]:
            x.violate(
                "C05/metaepoch-after-true",
                f"metaepoch counter moved from {T['me']} to {tree.metaepoch_count} after the condition was first true",
            )
        running = None
        prev = T["prev"]
        if prev is not None and set(prev) == set(cT):
            moved = [i for i in cT if cT[i]["nev"] != prev[i]["nev"]]
            if len(moved) == 1:
                running = moved[0]
        n_active = sum(1 for v in cT.values() if v["active"])
        if running is not None and n_active >= 2:
            x.flag("T inside a metaepoch with >=2 active demes")
        if running is not None:
            x.flag("T inside a metaepoch")
        else:
            x.flag("T at a metaepoch boundary / after the metaepoch")
        demes = {d.id: d for _, d in tree.all_demes}
        for i, vT in cT.items():
            if i not in cE:
                continue
            delta = cE[i]["nev"] - vT["nev"]
            typ = vT["typ"]
            d = demes[i]
            if not vT["active"]:
                if delta != 0:
                    x.violate("C05/inactive-deme-evaluated", f"{typ} {i} inactive at T evaluated {delta} more points")
                continue
            if typ == "LocalDeme":
                if cE[i]["me"] - vT["me"] > 1:
                    x.violate("C05/local-more-than-one-search", f"LocalDeme {i} ran {cE[i]['me'] - vT['me']} searches after T")
                continue
            one_gen = len(d.history[0]) if d.history else 0
            if delta > one_gen:
                x.violate(
                    f"C05/more-than-one-iteration:{typ}",
                    f"{typ} {i} evaluated {delta} points after the condition was first true (one generation = {one_gen})",
                    engine=x.desc["engines"][vT["level"]],
                )
            if cE[i]["ngen"] - vT["ngen"] > 1 and cE[i]["me"] == vT["me"] + 1 and vT["me"] == (prev or cT).get(i, vT)["me"]:
                pass
            if i == running and delta != 0:
                x.violate(
                    f"C05/running-deme-continued:{typ}",
                    f"{typ} {i} was mid-metaepoch when the condition became true and evaluated {delta} more points",
                )
        if n_active >= 2:
            x.flag(">=2 active demes at T")
        # run() called once more on the finished tree: the condition holds, so nothing at all may happen
        if x.drive == "run" and self.last_verdict is True and not x.desc.get("no_second_run"):
            from ..world import tree_digest

            n0, me0, dg0 = len(x.w.log), tree.metaepoch_count, tree_digest(tree)
            try:
                tree.run()
            except Exception as e:
                x.violate("C05/second-run-raised", f"run() on the finished tree raised {type(e).__name__}: {e}")
            if len(x.w.log) != n0 or tree.metaepoch_count != me0 or tree_digest(tree) != dg0:
                x.violate("C05/second-run-did-something", f"run() called again on the finished tree: {len(x.w.log) - n0} evaluations, metaepoch counter {me0} -> {tree.metaepoch_count}")
            else:
                x.flag("second run() on the finished tree did nothing")


BOUNDARY_KINDS = ("evals", "fevals", "precision", "rootstopped", "allstopped")


class ShippedMonitor(C05Monitor):
    """Adds the explicit clauses for MetaepochLimit(n), DontRun, the root clause, and the
    boundary clause: no metaepoch may be started when the real condition held at the boundary.
    The boundary state is observed at the first objective call of a new metaepoch (deme counters
    and flags are still those of the boundary; only the metaepoch counter has moved, so
    conditions that read the counter are not judged this way)."""

    def __init__(self, x):
        super().__init__(x)
        self.nlog_start = None
        self.root_me0 = None
        self.last_me = 0

    def on(self, kind, tree, info):
        if kind == "start":
            self.nlog_start = len(self.x.w.log)
            self.last_me = tree.metaepoch_count
            if self.x.desc["gsc"]["kind"] in BOUNDARY_KINDS:
                self.x.w.log.hooks.append(self.on_call)
        # the metaepoch in which a deme was created, as the harness saw it happen (not the deme's own started_at)
        fs = self.__dict__.setdefault("first_seen", {})
        if kind in ("start", "round_end", "consult", "boundary"):
            ids = {d.id for _, d in tree.all_demes}
            if kind == "round_end":
                self.__dict__["before_round"] = ids  # (children of this round appear right after it, within the same metaepoch)
            for i in ids:
                if i not in fs:
                    fs[i] = tree.metaepoch_count
        if kind in ("consult", "boundary"):
            self.on_consult_reference(tree)
        super().on(kind, tree, info)

    def reference_verdict(self, tree):
        """The shipped condition's verdict according to its documentation, computed from the recorder
        and public attributes only (None = not modelled)."""
        w = self.x.w
        g = self.x.desc["gsc"]
        k = g["kind"]
        if any(c is not None for c in w.cutoffs):
            return None
        if k == "metaepoch":
            return tree.metaepoch_count >= g["n"]
        if k == "evals":
            return len(w.log) >= g["n"]
        if k == "fevals":
            wts = g.get("weights", "equal")
            n = len(w.engines)
            if wts in ("equal", "none"):
                wts = [1] * n
            elif wts == "root":
                wts = [1] + [0] * (n - 1)
            return sum(wts[l] * w.log.per_level[l] for l in range(n)) >= g["n"]
        if k == "precision":
            opt = w.desc["precision"].get("opt", 0.0)
            opt = -opt if w.maximize else opt
            return any(abs(v - opt) <= w.desc["precision"]["eps"] for lv, v in zip(w.log.level, w.log.v) if lv == 0)
        if k == "rootstopped":
            return not tree.root.is_active
        if k == "allstopped":
            return not any(d.is_active for _, d in tree.all_demes)
        if k == "dontrun":
            return True
        if k == "noactive":
            n = g.get("n", 1)
            for lvl in range(1, len(tree.levels)):
                if not tree.levels[lvl]:
                    return False
                for d in tree.levels[lvl]:
                    born = self.__dict__.get("first_seen", {}).get(d.id, d.started_at)
                    if d.is_active or tree.metaepoch_count <= born + d.metaepoch_count + n:
                        return False
            return True
        return None

    def on_consult_reference(self, tree):
        ref = self.reference_verdict(tree)
        if ref is None:
            return
        try:
            real = bool(self.x.w.real_gsc(tree))
        except Exception:
            return
        self.x.extra_count("C05 shipped-condition verdicts compared")
        if ref:
            self.x.flag("shipped condition true at a consult")
        if real != ref:
            self.x.violate(
                f"C05/shipped-condition-verdict:{self.x.desc['gsc']['kind']}",
                f"{self.x.w.real_gsc} answers {real} but by its documented meaning it {'holds' if ref else 'does not hold'} "
                f"(metaepoch {tree.metaepoch_count}, calls per level {dict(self.x.w.log.per_level)})",
            )

    def on_call(self, level, xx, v):
        w = self.x.w
        t = w.tree
        if t is None:
            return
        me = t.metaepoch_count
        if me > self.last_me:
            self.last_me = me
            self.x.flag("start of a metaepoch observed")
            try:
                held = bool(w.real_gsc(t))
            except Exception:
                return
            if held:
                self.x.violate(
                    "C05/metaepoch-started-although-condition-held-at-boundary",
                    f"metaepoch {me} was started although the global condition {w.real_gsc} already held at the preceding boundary "
                    f"(evaluations at the boundary: {t.n_evaluations})",
                )

    def end(self, tree):
        super().end(tree)
        x = self.x
        g = x.desc["gsc"]
        kind = g["kind"]
        Mh = x.desc["Mh"]
        if kind == "evals" and not any(c is not None for c in x.w.cutoffs) and len(x.w.log) > g["n"]:
            # an evaluation limit may be crossed after any generation of any deme, and the engines are to notice it there: counted from
            # the very call that makes the limit true (not from the consult that happens to see it), a deme evaluates at most one more
            # generation
            import collections as _c

            x.w.log.settle_all()
            after = _c.Counter(o for o in x.w.log.owner[g["n"] :] if o is not None)
            demes = {d.id: d for _, d in tree.all_demes}
            for i, n_after in after.items():
                d = demes.get(i)
                if d is None or type(d).__name__ == "LocalDeme" or not d.history:
                    continue
                one_gen = len(d.history[0])
                if n_after > one_gen:
                    x.violate(f"C05/more-than-one-iteration-after-the-limit-was-crossed:{type(d).__name__}",
                              f"{type(d).__name__} {i} evaluated {n_after} points after the call that made {x.w.real_gsc} true (one generation = {one_gen})")
            x.flag("evaluation limit crossed: evaluations after the crossing call counted per deme")
        if kind == "metaepoch" and g["n"] <= Mh:
            n = g["n"]
            if tree.metaepoch_count != n:
                x.violate("C05/metaepochlimit-count", f"MetaepochLimit({n}) left the counter at {tree.metaepoch_count}")
            root = tree.root
            if x.desc.get("lsc") is None and type(root).__name__ not in ("CMADeme", "LocalDeme"):
                if root.metaepoch_count != n:
                    x.violate(
                        "C05/metaepochlimit-root",
                        f"MetaepochLimit({n}): the never-stopping root ran {root.metaepoch_count} metaepochs",
                    )
                else:
                    x.flag("root ran exactly n")
        if kind == "dontrun":
            if tree.metaepoch_count != 0:
                x.violate("C05/dontrun-count", f"DontRun left the counter at {tree.metaepoch_count}")
            if len(x.w.log) != self.nlog_start or len(tree.all_demes) != 1:
                x.violate("C05/dontrun-evaluated", "DontRun: objective evaluated / demes created beyond the root's initial population")
            x.flag("dontrun world")


def _worlds(tier, seed):
    shapes = shapes_h1() + shapes_h2()
    out = []
    for eng in shapes:
        for gens in (1, 3):
            for sk in ("simple", "nbc"):
                out.append(dict(engines=list(eng), gens=gens, sprout={"kind": sk, "L": 2}, seed=1 + seed % 1000, Mh=4))
    if tier == "thorough":
        for eng in shapes_h3_cover():
            for sk in ("simple", "nbc"):
                out.append(
                    dict(engines=list(eng), gens=2, sprout={"kind": sk, "L": 2}, seed=2 + seed % 1000, Mh=4, hib=(sk == "nbc"))
                )
        for eng in shapes_h2():
            out.append(dict(engines=list(eng), gens=2, sprout={"kind": "simple", "L": 3}, seed=3 + seed % 1000, Mh=5, hib=True, obj="sphere_in", box="B_3d"))
    return out


def _shipped(tier, seed):
    conds = [{"kind": "metaepoch", "n": n} for n in range(0, 5)]
    conds += [{"kind": "evals", "n": n} for n in (1, 7, 20, 45)]
    conds += [{"kind": "fevals", "n": 25, "weights": w} for w in ("equal", "root", [1, 2, 3], [1.0, 0.5, 0.25])]
    conds += [{"kind": "fevals", "n": n, "weights": [0.5, 1.5, 0.25]} for n in (9, 14, 22, 31, 39, 47)]
    conds += [{"kind": "precision"}, {"kind": "rootstopped"}, {"kind": "allstopped"}, {"kind": "noactive", "n": 1}, {"kind": "dontrun"}]
    shapes = [("SEA", "CMAf"), ("DE", "SHADE"), ("LHS", "LOC"), ("MWEA", "DEd"), ("SOB", "SEAX", "CMAw"), ("GA",), ("SHADE", "CMAs")]
    if tier == "thorough":
        shapes = shapes_h1() + shapes_h2()
    out = []
    for eng in shapes:
        for g in conds:
            for drive in ("run", "steps"):
                d = dict(engines=list(eng), gens=2, sprout={"kind": "simple", "L": 2}, gsc=g, seed=1 + seed % 1000, Mh=5, drive=drive)
                if g["kind"] == "precision":
                    d["precision"] = {"opt": 0.0, "eps": 0.02}
                    d["obj"] = "sphere_in"
                if g["kind"] in ("rootstopped", "allstopped"):
                    d["lsc"] = [{"kind": "metaepoch", "m": 2}] * len(eng)
                if g["kind"] == "noactive":
                    d["lsc"] = [None] + [{"kind": "metaepoch", "m": 1}] * (len(eng) - 1)
                    # with hibernation: a parent that slept for a while and sprouts again (its own iteration count lags behind the tree's)
                    out.append(dict(d, hib=True, Mh=9, gsc={"kind": "noactive", "n": 2}, sprout={"kind": "simple", "L": 1}, lsc=[None] + [{"kind": "metaepoch", "m": 2}] * (len(eng) - 1)))
                out.append(d)
    # every deme stops by its local condition long before the global metaepoch limit: run() still performs n metaepochs
    for eng in (("SEA", "DE"), ("DE", "SEA", "SHADE"), ("LHS",), ("GA", "CMAf")):
        for n in (5, 7):
            for drive in ("run", "steps"):
                out.append(dict(engines=list(eng), gens=1, sprout={"kind": "simple", "L": 2}, gsc={"kind": "metaepoch", "n": n}, seed=1 + seed % 1000, Mh=9, drive=drive,
                                lsc=[{"kind": "metaepoch", "m": 2}] + [{"kind": "metaepoch", "m": 1}] * (len(eng) - 1)))
    # 3-level trees in which the middle level has stopped for a while but leaves are still running
    for eng in (("SEA", "DE", "CMAf"), ("DE", "SEA", "SHADE"), ("GA", "SOB", "DE")):
        for n in (0, 1, 2):
            for drive in ("run", "steps"):
                out.append(dict(engines=list(eng), gens=1, sprout={"kind": "simple", "L": 2}, gsc={"kind": "noactive", "n": n}, seed=1 + seed % 1000, Mh=10, drive=drive,
                                lsc=[{"kind": "metaepoch", "m": 2}, {"kind": "metaepoch", "m": 2}, {"kind": "metaepoch", "m": 4}]))
    # fractional (exactly representable) weights with odd population sizes: weighted counts are not integers
    for eng in (("LHS", "SOB"), ("SEA", "DE"), ("STUB", "LHS", "DE"), ("DE", "STUBEA")):
        for n in range(6, 40, 3):
            for wts in ([0.5, 0.75, 0.25], [0.75, 0.5, 1.25]):
                out.append(dict(engines=list(eng), gens=1, pop=5, sprout={"kind": "simple", "L": 2}, gsc={"kind": "fevals", "n": n, "weights": wts[: len(eng)]},
                                seed=1 + seed % 1000, Mh=5, drive="run"))
    return out


def _sweeps(tier, seed):
    """Every evaluation limit N in 1..E (E = evaluations of the undisturbed run): the complete
    enumeration of the points at which an evaluation-limit condition can first hold."""
    from ..runlib import rep_shapes

    out = []
    shapes = rep_shapes() if tier == "thorough" else rep_shapes()[::2]
    for k, eng in enumerate(shapes):
        out.append(dict(engines=list(eng), gens=1 + k % 2, sprout={"kind": ("simple", "nbc")[k % 2], "L": 2}, seed=1 + seed % 1000, Mh=4, drive="run"))
    # beyond the small scope: 24-40 generations per metaepoch (the limit can be crossed at every one of them), and a tree of more than
    # 64 demes in which the limit is crossed in the middle of a late metaepoch
    out.append(dict(engines=["SEA"], gens=40, pop=8, sprout={"kind": "simple", "L": 2}, seed=1 + seed % 1000, Mh=2, drive="run", sweep_step=3))
    out.append(dict(engines=["DE", "SEA"], gens=24, pop=8, sprout={"kind": "simple", "L": 1}, seed=2 + seed % 1000, Mh=2, drive="run", sweep_step=5))
    out.append(dict(engines=["SEA", "DE"], gens=3, Mh=70, seed=3 + seed % 1000, drive="run", lsc=[None, {"kind": "metaepoch", "m": 1}], sprout={"kind": "scripted", "L": 1, "default": 1},
                    sweep_last=60 if tier == "quick" else 240, sweep_step=2))
    return out


def units(tier, seed):
    us = [{"kind": "force", "desc": d} for d in _worlds(tier, seed)]
    us += [{"kind": "shipped", "desc": d} for d in _shipped(tier, seed)]
    # beyond the small scope: evaluation limits of 38000-40000 with more than 32767 evaluations on one level (narrow counters)
    from ..scale import many_evaluation_worlds

    us += [{"kind": "shipped", "desc": d} for d in many_evaluation_worlds(tier, seed)]
    us += [{"kind": "evalsweep", "desc": d} for d in _sweeps(tier, seed)]
    # the SAME stop-condition object used for several trees of one process
    for g in ({"kind": "evals", "n": 40}, {"kind": "fevals", "n": 30, "weights": "equal"}, {"kind": "metaepoch", "n": 3}, {"kind": "noactive", "n": 1}, {"kind": "allstopped"}, {"kind": "rootstopped"}):
        seq = []
        for j, eng in enumerate((("SEA", "DE"), ("DE", "CMAf"), ("LHS", "SHADE"), ("SEA", "DE"))):
            d = dict(engines=list(eng), gens=1, sprout={"kind": "simple", "L": 2}, gsc=g, seed=1 + seed % 1000 + j, Mh=6, drive=("run", "steps")[j % 2], reuse_components=True)
            if g["kind"] in ("rootstopped", "allstopped"):
                d["lsc"] = [{"kind": "metaepoch", "m": 2}] * 2
            if g["kind"] == "noactive":
                d["lsc"] = [None, {"kind": "metaepoch", "m": 1}]
            seq.append(d)
        us.append({"kind": "reuse", "descs": seq})
    us.append({"kind": "minimize", "seed": seed})
    # first-true points reached after NON-default sprout / stop histories: G combined with L and S deviations
    from ..runlib import lifecycle_descs, split_units

    for mode, desc in lifecycle_descs(tier, seed):
        if mode == "bounded":
            us += split_units(dict(desc, drive="run"), min(2 if tier == "quick" else 3, desc.get("max_bound", 9)), "GLS", {"kind": "life"})
    return us


def _nontrivial(x):
    return "T inside a metaepoch with >=2 active demes" in x.flags


def run_unit(unit):
    res = Result()
    if unit["kind"] == "force":
        desc = dict(unit["desc"], choices="G", drive="run")
        explore(res, ID, unit, desc, [C05Monitor], bound=1, nontrivial_rule=_nontrivial)
    elif unit["kind"] == "shipped":
        desc = dict(unit["desc"], choices="")
        explore(res, ID, unit, desc, [ShippedMonitor], bound=0, nontrivial_rule=_nontrivial)
    elif unit["kind"] == "evalsweep":
        base = Execution(dict(unit["desc"], choices=""), [], []).run()
        E = len(base.w.log) if base.w is not None else 0
        lo = max(1, E - unit["desc"].get("sweep_last", E) + 1)
        for N in range(lo, E + 1, unit["desc"].get("sweep_step", 1)):
            for kind in ("evals", "fevals"):
                if kind == "fevals" and N % 3:
                    continue
                g = {"kind": "evals", "n": N} if kind == "evals" else {"kind": "fevals", "n": N, "weights": [1, 2, 3][: len(unit["desc"]["engines"])] if N % 2 else "equal"}
                desc = dict(unit["desc"], choices="", gsc=g)
                explore(res, ID, {"kind": "evalsweep"}, desc, [ShippedMonitor], bound=0, nontrivial_rule=_nontrivial, audit_every=64)
    elif unit["kind"] == "life":
        from ..runlib import run_split_unit

        return run_split_unit(ID, unit, [C05Monitor], _nontrivial, drive="run")
    elif unit["kind"] == "reuse":
        for desc in unit["descs"]:
            explore(res, ID, {"kind": "reuse"}, dict(desc, choices=""), [ShippedMonitor], bound=0, nontrivial_rule=_nontrivial)
    elif unit["kind"] == "minimize":
        _minimize_unit(res, unit)
    return res


def _minimize_unit(res, unit):
    """nit == number of metaepochs performed; minimize(maxiter=n) performs exactly n."""
    from pyhms import minimize
    from pyhms.tree import DemeTree

    from ..world import BOXES, box_array, make_objective, h64

    orig = DemeTree.run_step
    for boxname in ("B_asym", "B_dec"):
        box = box_array(boxname)
        f = make_objective("twofunnel", box, False)
        for kw in [dict(maxiter=n) for n in range(0, 5)] + [dict(maxfun=n) for n in (1, 5, 30, 80, 150)]:
            steps = [0]

            def counted(self, _o=orig, _s=steps):
                _s[0] += 1
                return _o(self)

            DemeTree.run_step = counted
            try:
                r = minimize(f, box, seed=1 + unit["seed"] % 1000, **kw)
            finally:
                DemeTree.run_step = orig
            res.executions += 1
            res.by_bound[0] += 1
            res.status["ok"] += 1
            res.states.add(h64(("minimize", boxname, tuple(kw.items()), r.nit)))
            res.transitions.add(h64(("minimize-run", boxname, tuple(kw.items()), steps[0])))
            res.outcomes.add(h64(("minimize", r.nit)))
            res.flags["minimize runs"] += 1
            rep = {"check": ID, "unit": unit, "desc": {"minimize": kw, "box": boxname}, "dev": []}
            if r.nit != steps[0]:
                res.add_violation(ID, "C05/minimize-nit", f"minimize({kw}) nit={r.nit} but {steps[0]} metaepochs were performed", {}, rep)
            if "maxiter" in kw and steps[0] != kw["maxiter"]:
                res.add_violation(ID, "C05/minimize-maxiter", f"minimize({kw}) performed {steps[0]} metaepochs", {}, rep)
    res.configs += 1
    res.configs_completed += 1


def finish(res, tier):
    if res.flags["T inside a metaepoch with >=2 active demes"] < 100:
        raise Vacuous("fewer than 100 executions with the first-true point inside a metaepoch and >=2 active demes")
    if res.flags["T at a metaepoch boundary / after the metaepoch"] < 100:
        raise Vacuous("fewer than 100 executions with the first-true point at a boundary")
    if res.flags["dontrun world"] < 1 or res.flags["root ran exactly n"] < 5:
        raise Vacuous("explicit MetaepochLimit / DontRun clauses not exercised")
    if res.extra["C05 shipped-condition verdicts compared"] < 5000 or res.flags["shipped condition true at a consult"] < 300:
        raise Vacuous("reference verdicts of the shipped conditions hardly compared")
    if res.flags["start of a metaepoch observed"] < 500:
        raise Vacuous("boundary clause hardly exercised")
    if res.configs_completed < res.configs:
        raise Vacuous(f"{res.configs - res.configs_completed} configurations without any completed execution")
    return {}


def replay(rep):
    unit = rep["unit"]
    if unit["kind"] == "minimize":
        r = Result()
        _minimize_unit(r, unit)
        return r.violations
    mon = C05Monitor if unit.get("kind") == "force" else ShippedMonitor
    return replay_run([mon], rep)
