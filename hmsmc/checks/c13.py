"""C13 - maximising f behaves exactly like minimising -f (self-composition / twin executions)."""
from __future__ import annotations

import itertools

import numpy as np

from ..explorer import Execution, Monitor, Result, Vacuous
from ..runlib import chunks
from ..world import census, h64

ID = "C13"
RULE = (
    "whole runs: all (root, child) mixes (+ triples in thorough) over the index-stable engines {DE, DEd, SHADE, LHS, SOB} x {.., CMAf, CMAw, CMAs, "
    "LOC} x both shipped sprout mechanisms x local conditions {DontStop, MetaepochLimit, AllChildrenStopped} x objectives: each world is executed "
    "twice from the same seed, on (f, minimise) and on (-f, maximise), and the two call logs must be identical genome by genome with negated "
    "values and the trees structurally identical with mirrored fitness; decision level: individual ordering / max / sorted, Population.topk, "
    "tournament selection, DE / SHADE steps, DemeLimit / LevelLimit, R5S selection, NBC clustering on all fitness weak orderings of <= 5 (quick) "
    "/ <= 6 individuals with lattice genomes: same individuals selected on both formulations; non-trivial = a twin pair whose tree has >= 2 "
    "demes / a decision case with at least one strict preference"
)
ASSUMPTIONS = [
    "alphabets of DESIGN.md section 4; SEA-family levels only decision by decision (their top-k keeps the same set in mirrored order), MWEA excluded by design",
    "local conditions that read raw fitness values (FitnessSteadiness) are excluded from whole-run twins",
]
EXPLANATION = "self-composition: state = pair of canonical tree censuses; a transition = one twin step (objective call) on which both formulations agreed"
STABLE_ROOTS = ["DE", "DEd", "SHADE", "LHS", "SOB"]
STABLE_ALL = STABLE_ROOTS + ["CMAf", "CMAw", "CMAs", "LOC"]


def mirrored(a, b):
    """a == -b, with NaN (undefined objective) mirrored to NaN."""
    return (a != a and b != b) or a == -b


def twin(res, unit, desc):
    xs = []
    for mx in (False, True):
        d = dict(desc, maximize=mx, drive="steps")
        xs.append(Execution(d, [], []).run())
    a, b = xs
    res.executions += 2
    res.by_bound[0] += 2
    res.configs += 1
    rep = {"check": ID, "unit": {"kind": "twin"}, "desc": desc, "dev": []}
    if a.status != "ok" or b.status != "ok":
        res.status[f"{a.status}/{b.status}"] += 1
        if a.status != b.status:
            res.add_violation(ID, "C13/twin-status", f"(f,min) run: {a.status} {a.exc}; (-f,max) run: {b.status} {b.exc}", {}, rep)
        return
    res.configs_completed += 1
    res.status["ok"] += 2
    res.states |= a.states | b.states
    res.transitions |= a.transitions | b.transitions
    res.outcomes.add(a.outcome())
    la, lb = a.w.log, b.w.log
    engines = desc["engines"]
    n = min(len(la), len(lb))
    div = None
    for i in range(n):
        if la.level[i] != lb.level[i] or la.x[i].tobytes() != lb.x[i].tobytes() or not mirrored(la.v[i], lb.v[i]):
            div = i
            break
    if div is None and len(la) != len(lb):
        div = n
    if len(a.tree.all_demes) >= 2:
        res.nontrivial.add(h64(desc))
    if div is not None:
        lvl = la.level[div] if div < len(la) else (lb.level[div] if div < len(lb) else 0)
        eng = engines[lvl]
        # which engine made the previous decision: the owner of the divergent call
        res.add_violation(
            ID,
            f"C13/twin-run-diverges:{eng}",
            f"twin runs of {engines} diverge at objective call {div} (level {lvl}, engine {eng}): "
            f"(f,min) evaluates {la.x[div].tolist() if div < len(la) else None}, (-f,max) evaluates {lb.x[div].tolist() if div < len(lb) else None}",
            {"call": div, "calls_min": len(la), "calls_max": len(lb)},
            rep,
        )
        return
    ca, cb = census(a.tree), census(b.tree)
    if ca != cb:
        res.add_violation(ID, "C13/twin-tree-differs", f"identical call logs but different trees: {ca} vs {cb}", {}, rep)
        return
    for (_, da), (_, db) in zip(a.tree.all_demes, b.tree.all_demes):
        for ga, gb in zip(da.history, db.history):
            if len(ga) != len(gb) or any(
                np.asarray(i.genome).tobytes() != np.asarray(j.genome).tobytes() or not mirrored(i.fitness, j.fitness) for i, j in zip(ga, gb)
            ):
                res.add_violation(ID, f"C13/twin-history-differs:{type(da).__name__}", f"deme {da.id}: histories differ between the two formulations", {}, rep)
                return
    ba, bb = a.tree.best_individual, b.tree.best_individual
    # among individuals whose fitness is NaN the library picks at random (by design): nothing to compare then
    if ba.fitness == ba.fitness and np.asarray(ba.genome).tobytes() != np.asarray(bb.genome).tobytes():
        res.add_violation(ID, "C13/twin-best-differs", "the two formulations report different best individuals", {}, rep)
    res.flags["twin pair identical"] += 1
    if len(res.samples) < 2:
        res.samples.append({"desc": desc, "calls": len(la), "demes": {k: (v["typ"], v["nev"]) for k, v in ca.items()}})


# --------------------------------------------------------------------------------------
# decision level
# --------------------------------------------------------------------------------------


def problems():
    from pyhms.core.problem import FunctionProblem

    B = np.array([(-10.0, 10.0), (-10.0, 10.0)])
    return {False: FunctionProblem(lambda x: 0.0, bounds=B, maximize=False), True: FunctionProblem(lambda x: 0.0, bounds=B, maximize=True)}


def weak_orderings(n):
    out = set()
    for v in itertools.product(range(n), repeat=n):
        r = sorted(set(v))
        if r == list(range(len(r))):
            out.add(v)
    return sorted(out)


def decisions(res, unit):
    from pyhms.core.individual import Individual
    from pyhms.core.population import Population
    from pyhms.demes.single_pop_eas.de import DE, SHADE
    from pyhms.demes.single_pop_eas.sea import TournamentSelection
    from pyhms.sprout.sprout_candidates import DemeCandidates, DemeFeatures
    from pyhms.sprout.sprout_filters import DemeLimit, LevelLimit
    from pyhms.utils.clusterization import NearestBetterClustering
    from pyhms.utils.r5s import R5SSelection

    P = problems()
    n = unit["n"]
    pts = [(float(3 * i % 7), float((5 * i + i * i) % 6)) for i in range(n)]
    if unit.get("large"):
        pts = [(float(i % 17) + 0.01 * i, float((7 * i) % 23) - 0.02 * i) for i in range(n)]  # pairwise distinct

    class FD:
        def __init__(s, level, active=True):
            s.level, s.is_active, s.children, s.id = level, active, [], "p"

    class FT:
        def __init__(s, levels):
            s.levels = levels

    def mk(fits, mx):
        sgn = -1.0 if mx else 1.0
        return [Individual(np.array(p), P[mx], sgn * float(f)) for p, f in zip(pts, fits)]

    def idx(inds, sel):
        return [next(i for i, x in enumerate(inds) if x is s) for s in sel]

    def both(name, fn, fits, settle=list):
        res.executions += 1
        res.by_bound[0] += 1
        res.status["ok"] += 1
        case = (name, n, tuple("nan" if f != f else f for f in fits))
        res.states.add(h64(case))
        out = []
        for mx in (False, True):
            try:
                out.append(settle(fn(mk(fits, mx), mx)))
            except Exception as e:
                out.append(("EXC", type(e).__name__, str(e)[:80]))
        res.transitions.add(h64((case, repr(out[0]))))
        if len(set(fits)) > 1:
            res.nontrivial.add(h64(case))
        if out[0] != out[1]:
            rep = {"check": ID, "unit": {"kind": "decision"}, "desc": {"decision": name, "n": n, "fits": [None if f != f else f for f in fits], "points": pts}, "dev": []}
            res.add_violation(ID, f"C13/decision-differs:{name}", f"{name} on fitness ranks {fits} (minimise) vs negated (maximise): selects {out[0]} vs {out[1]}", {}, rep)

    def ordering(inds, mx):
        # NaN against NaN is settled at random by design: not a decision to compare
        return [(i, j, inds[i] < inds[j], inds[i] == inds[j], inds[i] > inds[j]) for i in range(len(inds)) for j in range(len(inds))
                if not (inds[i].fitness != inds[i].fitness and inds[j].fitness != inds[j].fitness)]

    def topk(k):
        def f(inds, mx):
            pop = Population.from_individuals(inds)
            t = pop.topk(k)
            return sorted(g.tobytes() for g in t.genomes)

        return f

    def tournament(inds, mx):
        np.random.seed(5)
        return [g.tobytes() for g in TournamentSelection()(Population.from_individuals(inds)).genomes]

    def de_step(dither):
        def f(inds, mx):
            np.random.seed(7)
            sgn = -1.0 if mx else 1.0
            # the objective must be a function of the genome: rank-preserving synthetic objective
            from pyhms.core.problem import FunctionProblem

            table = {np.array(p).tobytes(): i.fitness for p, i in zip(pts, inds)}

            def obj(x):
                return table.get(np.asarray(x, dtype=float).tobytes(), sgn * (float(np.sum(np.abs(x))) + 100.0))

            prob = FunctionProblem(obj, bounds=P[mx].bounds, maximize=mx)
            ii = [Individual(i.genome.copy(), prob, i.fitness) for i in inds]
            out = DE(use_dither=dither, crossover_probability=0.9, f=0.8).run(ii)
            return [o.genome.tobytes() for o in out]

        return f

    def shade_step(inds, mx):
        np.random.seed(11)
        sgn = -1.0 if mx else 1.0
        from pyhms.core.problem import FunctionProblem

        table = {np.array(p).tobytes(): i.fitness for p, i in zip(pts, inds)}

        def obj(x):
            return table.get(np.asarray(x, dtype=float).tobytes(), sgn * (float(np.sum(np.abs(x))) + 100.0))

        prob = FunctionProblem(obj, bounds=P[mx].bounds, maximize=mx)
        ii = [Individual(i.genome.copy(), prob, i.fitness) for i in inds]
        sh = SHADE(3, len(ii))
        g1 = sh.run(ii)
        g2 = sh.run(g1)
        return [o.genome.tobytes() for o in g1 + g2]

    def demelimit(k):
        def f(inds, mx):
            p = FD(0)
            out = DemeLimit(k)({p: DemeCandidates(list(inds), DemeFeatures())}, None)
            return sorted(idx(inds, out[p].individuals))

        return f

    def levellimit(L, act):
        def f(inds, mx):
            p = FD(0)
            t = FT([[p], [FD(1, True) for _ in range(act)]])
            out = LevelLimit(L)({p: DemeCandidates(list(inds), DemeFeatures())}, t)
            return sorted(idx(inds, out[p].individuals))

        return f

    def r5s(inds, mx):
        return idx(inds, R5SSelection()(list(inds), n=max(2, len(inds) - 2)))

    def nbc(inds, mx):
        return sorted(idx(inds, NearestBetterClustering(inds, 1.5, 1.0).cluster()))

    def nbc_cut(inds, mx):
        # truncation cut inside a tie group / several individuals tied for best: which of the tied ones is kept / becomes the root is
        # decided by their order in the input, alike in both formulations
        return sorted(idx(inds, NearestBetterClustering(inds, 1.0, 0.7).cluster()))

    def best(inds, mx):
        return [idx(inds, [max(inds)]), idx(inds, sorted(inds)), idx(inds, sorted(inds, reverse=True))]

    if unit.get("large"):
        # beyond the small scope: 100-300 individuals / candidates (threshold-switched code paths), a few fitness patterns instead of
        # all weak orderings: all distinct, a unique best with tie groups of n/5, tie groups of n/2
        patterns = [tuple(float((i * 37) % n) for i in range(n)), tuple(0.0 if i == 5 else 1.0 + (i % 5) for i in range(n)), tuple(0.0 if i == 5 else 1.0 + (i % 2) for i in range(n))]
        for fits in patterns:
            both("max/sorted", best, fits)
            both("tournament", tournament, fits)
            both("DE.run", de_step(False), fits)
            both("DE.run(dither)", de_step(True), fits)
            both("SHADE.run", shade_step, fits)
            both("NBC", nbc, fits)
            both("NBC(cut 0.7)", nbc_cut, fits)
            both("NBC(cut 0.7, tied best)", nbc_cut, tuple(float(i % 3) for i in range(n)))
            both("topk(0)", topk(0), fits)
            both("topk(n)", topk(n), fits)
            if len(set(fits)) == n:
                for k in (1, 10, n // 2, n - 1):
                    both(f"topk({k})", topk(k), fits)
                for k in (1, 10):
                    both(f"DemeLimit({k})", demelimit(k), fits)
                for L, act in ((10, 0), (10, 3), (40, 5)):
                    both(f"LevelLimit({L}) active={act}", levellimit(L, act), fits)
        res.configs += 1
        res.configs_completed += 1
        return
    nan = float("nan")
    if n <= 4:
        # one individual whose fitness is NaN (objective undefined there): must be treated alike in both formulations
        for fits in weak_orderings(n):
            nf = tuple(nan if i == 0 else f for i, f in enumerate(fits))
            both("individual-ordering(one NaN)", ordering, nf)
            both("max/sorted(one NaN)", best, nf)
            both("tournament(one NaN)", tournament, nf)
            if len(set(fits[1:])) == n - 1:
                both("topk(1)(one NaN)", topk(1), nf)
                both("DemeLimit(1)(one NaN)", demelimit(1), nf)
    for fits in weak_orderings(n):
        both("individual-ordering", ordering, fits)
        both("max/sorted", best, fits)
        for k in (1, 2, n - 1):
            if 1 <= k <= n and len(set(fits)) == n:  # with ties the kept SET may legitimately differ only in tied members
                both(f"topk({k})", topk(k), fits)
        # boundary requests: nothing (k_elites = 0 is the non-elitist setting) and at least everything
        both("topk(0)", topk(0), fits)
        both("topk(n)", topk(n), fits)
        both("topk(n+1)", topk(n + 1), fits)
        both("tournament", tournament, fits)
        if n >= 4:
            both("DE.run", de_step(False), fits)
            both("DE.run(dither)", de_step(True), fits)
            both("SHADE.run", shade_step, fits)
        if len(set(fits)) == n:
            for k in (1, 2):
                both(f"DemeLimit({k})", demelimit(k), fits)
            for L, act in ((1, 0), (2, 0), (2, 1), (3, 1)):
                both(f"LevelLimit({L}) active={act}", levellimit(L, act), fits)
        if n >= 4 and len(set(fits)) == n:
            both("R5SSelection", r5s, fits)
        if fits.count(0) == 1:
            both("NBC", nbc, fits)
    res.configs += 1
    res.configs_completed += 1


def units(tier, seed):
    s = 1 + seed % 1000
    descs = []
    lscs = [None, {"kind": "metaepoch", "m": 2}, "allchildren"]
    k = 0
    shapes = [(r,) for r in STABLE_ROOTS] + [(r, c) for r in STABLE_ROOTS for c in STABLE_ALL]
    if tier == "thorough":
        shapes += [(r, m, c) for r in STABLE_ROOTS[:3] for m in ("DE", "SHADE", "CMAf", "SOB") for c in STABLE_ALL]
    for eng in shapes:
        for sk in ("simple", "nbc"):
            for j in range(3 if tier == "thorough" else 2):
                k += 1
                descs.append(dict(engines=list(eng), gens=1 + k % 2, Mh=4, seed=s, sprout={"kind": sk, "L": 2}, obj=("sphere_in", "twofunnel", "lin_corner", "plateau", "const", "tiny_offset")[k % 6],
                                  box=("B_asym", "B_sym", "B_3d")[(k // 3) % 3], lsc=[lscs[(k + i) % 3] for i in range(len(eng))], hib=bool(k % 4 == 0)))
    # objectives undefined (NaN) on part of the box: the direction switches must treat NaN alike
    for eng in [e for e in shapes if not any(v.startswith("CMA") or v == "LOC" for v in e)]:
        for obj in ("nanhole", "nanhalf"):
            k += 1
            descs.append(dict(engines=list(eng), gens=2, Mh=3, seed=s + k % 3, sprout={"kind": ("simple", "nbc")[k % 2], "L": 2}, obj=obj, box="B_asym", pop=(6, 10)[k % 2]))
    # penalty objective (+-inf on a slab) with CMA-ES / local children; user-composed mechanism that keeps TWO candidates per deme
    for eng in [e for e in shapes if len(e) >= 2 and (e[-1].startswith("CMA") or e[-1] == "LOC")]:
        k += 1
        descs.append(dict(engines=list(eng), gens=2, Mh=4, seed=s + k % 3, sprout={"kind": ("simple", "nbc")[k % 2], "L": 2}, obj="infhole", box=("B_asym", "B_sym")[k % 2]))
    for eng in [e for e in shapes if len(e) >= 2][::2]:
        k += 1
        descs.append(dict(engines=list(eng), gens=1, Mh=4, seed=s + k % 3, obj=("twofunnel", "sphere_in")[k % 2], box=("B_asym", "B_sym")[k % 2],
                          sprout={"kind": "composed", "L": 3, "gen": {"kind": "nbc", "factor": 1.0, "trunc": 1.0}, "deme_chain": [{"kind": "demelimit", "limit": 2 + k % 2}],
                                  "tree_chain": [{"kind": "levellimit", "limit": 3}]}))
    # a memoising objective that returns the 0-d arrays it keeps (in-place sign flips would corrupt it)
    for eng in [e for e in shapes if len(e) == 2][::3] + [e for e in shapes if len(e) == 2 and e[1] == "LOC"]:
        k += 1
        descs.append(dict(engines=list(eng), gens=1, Mh=3, seed=s + k % 3, sprout={"kind": ("simple", "nbc")[k % 2], "L": 2}, obj=("sphere_in", "twofunnel")[k % 2], array_memo=True,
                          shared_problem=bool(k % 2 or eng[1] == "LOC"), request_probe=False))
    # evaluation budgets that run out in the middle of a run (in the middle of a local search, of a CMA-ES generation ...): the
    # value handed out afterwards is the direction's worst one; also with another shipped wrapper under the budget wrapper
    for eng in [e for e in shapes if len(e) == 2 and (e[1] in ("LOC", "DE", "SHADE") or e[1].startswith("CMA"))]:
        for j in range(2):
            k += 1
            descs.append(dict(engines=list(eng), gens=1 + k % 2, Mh=4, seed=s + k % 3, sprout={"kind": ("simple", "nbc")[k % 2], "L": 2}, obj=("sphere_in", "twofunnel", "lin_corner")[k % 3],
                              box=("B_asym", "B_sym")[k % 2], cutoff=[(None, 40, 25)[k % 3], (7, 13, 22, 31)[k % 4]], inner_wrap=(None, "stats", "count")[k % 3]))
    us = [{"kind": "twin", "descs": c} for c in chunks(descs, 12)]
    for n in (2, 3, 4, 5) if tier == "quick" else (2, 3, 4, 5, 6):
        us.append({"kind": "decisions", "n": n})
    for n in (100, 150, 300):
        us.append({"kind": "decisions", "n": n, "large": True})
    # beyond the small scope: twin runs with populations of 100 / 150 in dimension 12 (index-stable engines only)
    from ..scale import big_population_worlds

    big = [dict(d, Mh=4) for d in big_population_worlds(tier, seed, engines=[("SHADE", "CMAf"), ("DE", "SHADE"), ("DEd", "DE"), ("LHS", "SHADE"), ("SHADE",)]) if not d["maximize"]]
    for d in big:
        d.pop("maximize", None)
    us += [{"kind": "twin", "descs": c} for c in chunks(big, 3)]
    return us


def run_unit(unit):
    res = Result()
    if unit["kind"] == "twin":
        for d in unit["descs"]:
            twin(res, unit, d)
    else:
        decisions(res, unit)
    return res


def finish(res, tier):
    if len(res.nontrivial) < 300:
        raise Vacuous("few non-trivial twin pairs / decision cases")
    return {"twin_pairs_identical": res.flags["twin pair identical"], "exhaustive": True}


def replay(rep):
    res = Result()
    if rep["unit"]["kind"] == "twin":
        twin(res, rep["unit"], rep["desc"])
    else:
        decisions(res, {"n": rep["desc"]["n"], "large": rep["desc"]["n"] >= 50})
    return res.violations
