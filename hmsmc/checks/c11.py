"""C11 - each generation is bred from the generation immediately before it."""
from __future__ import annotations

import collections

import numpy as np

from ..explorer import Monitor, Result, Vacuous
from ..rngshim import Shim
from ..runlib import chunks, rep_shapes, replay_run, run_descs, run_split_unit, shapes_h1, shapes_h2, shapes_h3_cover, split_units
from ..world import POP_ENGINES

ID = "C11"
RULE = (
    "RUN: every population engine (SEA variants, MWEA, DE, SHADE, CMA-ES) as root and as child, generations per metaepoch in {1, 2, 3}, both "
    "sprout mechanisms; all consecutive generation pairs of every deme's history are joined with that deme's own time-stamped call sequence "
    "(attribution from public counters): every member of generation i+1 that is not (bitwise genome + fitness) a member of generation i must "
    "have been evaluated by this deme after generation i was complete; RUN+R: every draw call deviated once to the identity-revealing answers "
    "(zero noise / no crossover / centre), under which offspring are exact copies of the population they were bred from; non-trivial = a deme "
    "with >= 2 generations inside one metaepoch was checked"
)
ASSUMPTIONS = ["alphabets of DESIGN.md section 4", "per-deme attribution of objective calls from deme.n_evaluations (DESIGN.md 3.3)"]
EXPLANATION = "state = canonical tree census at every consult / boundary"
C11_TYPES = ("EADeme", "DEDeme", "SHADEDeme", "CMADeme")


class C11Monitor(Monitor):
    def on(self, kind, tree, info):
        if kind == "cma_ask_without_tell":
            self.x.violate("C11/not-bred-from-predecessor:CMADeme:asked-twice", "CMA-ES was asked for a new population although the previous one had not been told back: "
                           "the new generation is drawn from the same distribution again instead of being bred from its predecessor")

    def de_donors(self, d, l, hist):
        """Plain DE (fixed F, crossover probability 1): every member that is new in generation i+1 is a donor a + F (b - c) of three distinct members of
        generation i, mirrored into the box - checked by enumeration (small populations only)."""
        from pyhms.demes.single_pop_eas.common import apply_bounds

        x = self.x
        F = x.desc.get("de_scaling", 0.8)
        box = x.w.box
        for gi in range(1, len(hist)):
            prev = [np.asarray(i.genome, dtype=float) for i in hist[gi - 1]]
            cur = [np.asarray(i.genome, dtype=float) for i in hist[gi]]
            if len(prev) != len(cur) or len(prev) > 10:
                return
            pk = {g.tobytes() for g in prev}
            for j, g in enumerate(cur):
                if g.tobytes() in pk:
                    continue
                idx = list(range(len(prev)))  # (the new population is not index-stable: accepted trials first, then the parents that stay)
                ok = False
                for a in idx:
                    for b in idx:
                        if b == a:
                            continue
                        for c in idx:
                            if c == a or c == b:
                                continue
                            donor = prev[a] + F * (prev[b] - prev[c])
                            if apply_bounds(donor.reshape(1, -1), box, "reflect")[0].tobytes() == g.tobytes():
                                ok = True
                                break
                        if ok:
                            break
                    if ok:
                        break
                x.extra_count("C11 DE members derived from their predecessors")
                if not ok:
                    x.violate("C11/not-bred-from-predecessor:DEDeme:no-donor-triple", f"DEDeme {d.id} generation {gi}: member {j} is new, but it is not a + F (b - c) (mirrored into the box) of "
                              f"any three distinct members of generation {gi - 1} (F = {F}, crossover probability 1)")
                    return

    def end(self, tree):
        x, w = self.x, self.x.w
        log = w.log
        log.settle_all()
        if any(o is None for o in log.owner):
            x.note("unattributed calls: C11 skipped for this execution")
            return
        seqs = collections.defaultdict(lambda: collections.defaultdict(list))
        def fk(v):
            return "nan" if v != v else float(v)

        for t, (o, xb, v) in enumerate(zip(log.owner, log.x, log.v)):
            seqs[o][(xb.tobytes(), fk(v))].append(t)
        gens_cfg = x.desc.get("gens", 1)
        for l, d in tree.all_demes:
            typ = type(d).__name__
            if typ not in C11_TYPES:
                continue
            pos = seqs[d.id]
            prevset = None
            b_prev = -1
            hist = d.history
            if typ == "DEDeme" and x.desc.get("de_crossover") == 1.0 and x.desc["engines"][l] == "DE" and not x.desc.get("use_cache"):
                self.de_donors(d, l, hist)
            g_of = gens_cfg[l] if isinstance(gens_cfg, (list, tuple)) else gens_cfg
            if g_of >= 2 and len(hist) >= 3:
                x.flag("deme with several generations per metaepoch")
            for gi, g in enumerate(hist):
                ks = [(np.asarray(i.genome, dtype=float).tobytes(), fk(i.fitness)) for i in g]
                new = [k for k in ks if prevset is None or k not in prevset]
                if prevset is not None:
                    x.extra_count("C11 generation pairs")
                    for k in new:
                        if k[1] != "nan" and np.isinf(k[1]):
                            continue
                        if not any(t > b_prev for t in pos.get(k, ())):
                            x.violate(
                                f"C11/not-bred-from-predecessor:{typ}",
                                f"{typ} {d.id} generation {gi}: a member neither belongs to generation {gi - 1} nor was evaluated after it was complete "
                                f"(it was evaluated earlier: {bool(pos.get(k))})",
                                engine=x.desc["engines"][l],
                            )
                            break
                ts = [min((t for t in pos.get(k, ()) if t > b_prev), default=None) for k in new]
                ts = [t for t in ts if t is not None]
                if ts:
                    b_prev = max(ts)
                prevset = set(ks)


MONITORS = [C11Monitor]


def _nontrivial(x):
    return "deme with several generations per metaepoch" in x.flags


def IdentityShim():
    return Shim(menu="identity")


def units(tier, seed):
    s = 1 + seed % 1000
    descs = []
    shapes = shapes_h1() + shapes_h2() + (shapes_h3_cover() if tier == "thorough" else [])
    for k, eng in enumerate(shapes):
        for gens in (1, 2, 3):
            for sk in ("simple", "nbc"):
                descs.append(dict(engines=list(eng), gens=gens, obj=("sphere_in", "twofunnel", "plateau")[k % 3], Mh=3, seed=s, sprout={"kind": sk, "L": 2}, observing_gsc=bool(k % 2),
                                  maximize=bool(k % 2), pmut=(1.0, 0.5)[k % 2], hib=bool(k % 5 == 0)))
    # evaluation budgets: the global condition becomes true in the middle of a metaepoch of several generations
    for k3, eng in enumerate(shapes_h1() + shapes_h2()[::3]):
        for n in (17, 29, 44):
            descs.append(dict(engines=list(eng), gens=3, obj="sphere_in", Mh=5, seed=s, sprout={"kind": "simple", "L": 2}, gsc={"kind": "evals", "n": n + k3 % 5}, maximize=bool(k3 % 2)))
    # objective undefined (NaN) on part of the box
    for k2, eng in enumerate([e for e in shapes_h1() + shapes_h2() if not any(v.startswith("CMA") or v == "LOC" for v in e)][::2]):
        descs.append(dict(engines=list(eng), gens=2 + k2 % 2, obj=("nanhalf", "nanhole")[k2 % 2], Mh=3, seed=s + k2 % 3, sprout={"kind": "simple", "L": 2}, maximize=bool(k2 % 2), pop=(6, 10)[k2 % 2]))
    # boundary values of the DE control parameters (crossover probability 0 and 1, scaling 0 and 1); user-assembled SEA engines
    for k4, eng in enumerate([("DE",), ("DEd",), ("SEA", "DE"), ("DE", "DEd"), ("LHS", "DEd", "DE")]):
        for cr, sc in ((1.0, 0.8), (0.0, 0.8), (0.9, 1.0), (1.0, 0.0)):
            descs.append(dict(engines=list(eng), gens=2 + k4 % 2, obj=("sphere_in", "twofunnel")[k4 % 2], Mh=3, seed=s + k4, sprout={"kind": "simple", "L": 2}, maximize=bool(k4 % 2),
                              de_crossover=cr, de_scaling=sc))
        # tie-rich objectives, longer runs (a donor must come from the population as it is NOW, also when fitness values repeat)
        for obj in ("plateau", "intpen"):
            descs.append(dict(engines=list(eng), gens=3, obj=obj, Mh=6, seed=s + k4, sprout={"kind": "simple", "L": 2}, maximize=bool(k4 % 2), de_crossover=1.0, de_scaling=0.8))
    for k5, eng in enumerate([("UEAm",), ("UEA3", "DE"), ("SEA", "UEAi"), ("UEAi", "UEAm", "UEA3")]):
        for gens in (1, 3):
            descs.append(dict(engines=list(eng), gens=gens, obj=("sphere_in", "plateau")[k5 % 2], Mh=3, seed=s + k5, sprout={"kind": ("simple", "nbc")[k5 % 2], "L": 2}, maximize=bool(k5 % 2),
                              pmut=(1.0, 0.5)[k5 % 2]))
    # beyond the small scope (hmsmc/scale.py): run once each
    from ..scale import big_population_worlds, high_dimension_worlds

    descs += big_population_worlds(tier, seed) + high_dimension_worlds(tier, seed)
    us = [{"kind": "run", "descs": c} for c in chunks(descs, 30)]
    rsh = rep_shapes() if tier == "quick" else rep_shapes() + [list(e) for e in shapes_h2()[::3]]
    for k, eng in enumerate(rsh):
        if not any(e in POP_ENGINES or e.startswith("CMA") for e in eng):
            continue
        desc = dict(engines=list(eng), gens=2 + k % 2, obj="sphere_in", Mh=2, seed=s, sprout={"kind": "simple", "L": 2}, choices="R", pmut=(1.0, 0.5)[k % 2])
        us += split_units(desc, 1, "R", {"kind": "runR"}, shim_factory=IdentityShim)
    return us


def run_unit(unit):
    if unit["kind"] == "run":
        return run_descs(Result(), ID, unit, unit["descs"], MONITORS, _nontrivial)
    return run_split_unit(ID, unit, MONITORS, _nontrivial, shim_factory=IdentityShim)


def finish(res, tier):
    if res.extra["C11 generation pairs"] < 5000:
        raise Vacuous("fewer than 5000 generation pairs checked")
    if len(res.nontrivial) < 300:
        raise Vacuous("few demes with several generations per metaepoch")
    if res.notes.get("unattributed calls: C11 skipped for this execution", 0) > res.executions // 20:
        raise Vacuous("call attribution failed too often")
    if res.configs_completed < res.configs:
        raise Vacuous(f"{res.configs - res.configs_completed} configurations without any completed execution")
    return {"generation_pairs_checked": res.extra["C11 generation pairs"]}


def replay(rep):
    sf = IdentityShim if ("R" in rep["desc"].get("choices", "")) else None
    return replay_run(MONITORS, rep, shim_factory=sf)
