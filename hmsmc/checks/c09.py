"""C09 - sprouts keep their distance from existing demes; centroids are current."""
from __future__ import annotations

import numpy as np

from ..explorer import Monitor, Result, Vacuous
from ..ref.nbc import nbc_reference
from ..runlib import chunks, replay_run, run_descs
from ..world import ALL, ROOTS, h64

from pyhms.core.individual import Individual  # noqa: E402
from pyhms.sprout.sprout_candidates import DemeCandidates, DemeFeatures  # noqa: E402
from pyhms.sprout.sprout_filters import FarEnough, NBC_FarEnough  # noqa: E402

ID = "C09"
RULE = (
    "RUN: (root, child) for all 14 child engines (+ triples) x FarEnough / NBC_FarEnough (check_only_active both ways) x thresholds {small, "
    "medium} x norms {1, 2, inf}, horizon 5 with local conditions that stop children (siblings that moved since creation, active and "
    "inactive); at every boundary centroid == mean(current population); at every sprouting round the probe recomputes the true mean of every "
    "deme and checks every returned seed against every deme the configured filter considers (guard band 1e-9), and applies the real filters to "
    "synthetic candidates placed at a distance EXACTLY equal to the threshold (must be rejected), one ulp below the threshold value (must pass "
    "iff all other siblings allow) and far away, predicting the verdict from the true means; non-trivial = a round in which the target level "
    "held a deme that had run >= 1 metaepoch since it was created"
)
ASSUMPTIONS = [
    "the true centroid is np.mean over the genomes of deme.current_population (same summation as the library's helper), compared with rtol 1e-12",
    "real-run seeds are reported only when closer than threshold*(1-1e-9); exact equality is decided by the synthetic cases",
]
EXPLANATION = "state = canonical tree census at every consult / boundary"


def true_mean(d):
    pop = d.current_population
    if not pop:
        return None
    return np.mean([np.asarray(i.genome, dtype=float) for i in pop], axis=0)


def filter_spec(desc):
    sp = desc["sprout"]
    if sp["kind"] == "simple":
        box = None
        return {"kind": "farenough", "dist": sp["far"], "ord": 2}
    if sp["kind"] == "nbc":
        return {"kind": "nbcfar", "factor": sp.get("fil", 3.0), "ord": 2, "only_active": False, "gen": (sp.get("gen", 3.0), sp.get("trunc", 0.7))}
    for f in sp.get("deme_chain", []):
        if f["kind"] in ("farenough", "nbcfar"):
            f = dict(f)
            if f["kind"] == "nbcfar":
                g = sp.get("gen", {})
                f["gen"] = (g.get("factor", 3.0), g.get("trunc", 0.7))
            return f
    return None


class C09Monitor(Monitor):
    def __init__(self, x):
        super().__init__(x)
        self.means = None
        self.spec = filter_spec(x.desc)

    def on(self, kind, tree, info):
        x = self.x
        if kind == "boundary":
            for l, d in tree.all_demes:
                m = true_mean(d)
                c = d.centroid
                typ = type(d).__name__
                x.extra_count("C09 centroid comparisons")
                if m is None:
                    if c is not None:
                        x.violate(f"C09/centroid-of-empty:{typ}", f"{typ} {d.id} has an empty population but centroid {c}")
                    continue
                if d.metaepoch_count >= 1:
                    x.flag("centroid of a moved deme checked")
                if c is None or not np.allclose(np.asarray(c, dtype=float), m, rtol=1e-12, atol=0.0):
                    x.violate(
                        f"C09/centroid-stale:{typ}",
                        f"{typ} {d.id} after {d.metaepoch_count} metaepochs: centroid {None if c is None else np.asarray(c).tolist()} != mean of current population {m.tolist()}",
                    )
                elif isinstance(c, np.ndarray) and c.flags.writeable and (sum(map(ord, d.id)) + d.metaepoch_count) % 2 == 0:
                    # a caller that computes on the returned array in place (offset = deme.centroid; offset -= ref): the deme's
                    # centroid is still the mean of its population afterwards
                    c -= 1.0
                    c2 = d.centroid
                    x.flag("returned centroid modified in place by the caller")
                    if c2 is None or not np.allclose(np.asarray(c2, dtype=float), m, rtol=1e-12, atol=0.0):
                        x.violate(f"C09/centroid-aliased:{typ}", f"{typ} {d.id}: after the caller changed the array it got from .centroid in place, the deme reports {np.asarray(c2).tolist()}, "
                                  f"mean of current population {m.tolist()}")
        elif kind == "round_begin":
            self.means = {d.id: (true_mean(d), d.is_active, l, d.metaepoch_count) for l, d in tree.all_demes}
            self.pops = {d.id: ([np.asarray(i.genome, dtype=float) for i in d.current_population], [float(i.fitness) for i in d.current_population]) for l, d in tree.all_demes}
            self.synthetic(tree)
        elif kind == "round_end" and self.spec is not None:
            self.seeds(tree, info["seeds"])

    def considered(self, level, only_active):
        return [(i, m) for i, (m, act, l, me) in self.means.items() if l == level and m is not None and (act or not only_active)]

    def seeds(self, tree, seeds):
        x = self.x
        sp = self.spec
        for p, c in seeds.items():
            tl = p.level + 1
            if sp["kind"] == "farenough":
                thr = sp["dist"]
                sibs = self.considered(tl, True)
            else:
                md = c.features.nbc_mean_distance
                if md is None:
                    x.violate("C09/nbc-feature-missing", f"candidates of {p.id} carry no nbc_mean_distance")
                    continue
                G, F = self.pops[p.id]
                st, sure, maybe, dd = nbc_reference(G, F, x.w.maximize, sp["gen"][0], sp["gen"][1])
                distinct = len({g.tobytes() for g in G}) == len(G)
                if st == "OK" and dd and distinct:
                    ref = float(np.mean(list(dd.values())))
                    if abs(ref - md) > 1e-9 * max(ref, 1e-300):
                        x.violate("C09/nbc-mean-distance", f"mean nearest-better distance exported for {p.id} is {md}, the definition gives {ref}")
                    else:
                        x.flag("nbc mean distance cross-checked")
                thr = sp["factor"] * float(md)
                sibs = self.considered(tl, sp.get("only_active", False))
            if any(me >= 1 for i, (m, act, l, me) in self.means.items() if l == tl):
                x.flag("round with a moved deme on the target level")
            for ind in c.individuals:
                g = np.asarray(ind.genome, dtype=float)
                for sid, m in sibs:
                    dist = float(np.linalg.norm(g - m, ord=(np.inf if sp["ord"] == "inf" else sp["ord"])))
                    x.extra_count("C09 seed-sibling distances")
                    if not dist > thr * (1 - 1e-9):
                        x.violate(
                            f"C09/seed-too-close:{sp['kind']}",
                            f"seed accepted for parent {p.id} lies at distance {dist} (ord {sp['ord']}) from the current centroid of deme {sid}, threshold {thr}",
                            sibling_type=type(next(d for _, d in tree.all_demes if d.id == sid)).__name__,
                        )

    def synthetic(self, tree):
        """The real filters on synthetic candidates whose verdict is predicted from the true means."""
        x = self.x
        nl = len(tree.levels)
        for pl in range(nl - 1):
            parents = [d for d in tree.levels[pl] if d.is_active]
            if not parents:
                continue
            p = parents[0]
            problem = x.w.level_configs[pl].problem
            for ord_ in (1, 2, np.inf):
                for only_active in (True, False):
                    sibs = self.considered(pl + 1, only_active)
                    if not sibs:
                        continue
                    sid, m = sibs[-1]
                    dim = len(m)
                    off = np.zeros(dim)
                    off[0], off[1 % dim] = 3.0, (4.0 if dim > 1 else 0.0)
                    cands = [m + off * 0.01, m + off * 100.0, m.copy(), sibs[0][1] + off * 0.003]
                    base = float(np.linalg.norm(cands[0] - m, ord=ord_))
                    for thr in (base, float(np.nextafter(base, 0.0)), base * 0.5, base * 3.0):
                        inds = [Individual(np.array(g, copy=True), problem, float(k)) for k, g in enumerate(cands)]
                        exp = [all(float(np.linalg.norm(np.asarray(g) - mm, ord=ord_)) > thr for _, mm in sibs) for g in cands]
                        # FarEnough considers active siblings only
                        if only_active:
                            out = FarEnough(thr, ord_)({p: DemeCandidates(list(inds), DemeFeatures())}, tree)
                            self.compare(out[p].individuals, inds, exp, f"FarEnough({thr!r}, ord={ord_})", sid, thr == base)
                        if thr > 0:
                            out = NBC_FarEnough(2.0, ord_, only_active)({p: DemeCandidates(list(inds), DemeFeatures(nbc_mean_distance=thr / 2.0))}, tree)
                            self.compare(out[p].individuals, inds, exp, f"NBC_FarEnough(2.0, ord={ord_}, only_active={only_active}) mean={thr / 2.0!r}", sid, thr == base)
                    # an undefined threshold (mean of no nearest-better distances is NaN when truncation keeps one individual):
                    # nothing is 'strictly farther than NaN' from a deme the filter considers
                    inds = [Individual(np.array(g, copy=True), problem, float(k)) for k, g in enumerate(cands)]
                    out = NBC_FarEnough(2.0, ord_, only_active)({p: DemeCandidates(list(inds), DemeFeatures(nbc_mean_distance=float("nan")))}, tree)
                    self.compare(out[p].individuals, inds, [False] * len(inds), f"NBC_FarEnough(2.0, ord={ord_}, only_active={only_active}) mean=nan", sid, False)
                    x.flag("undefined (NaN) threshold case")

    def compare(self, kept, inds, exp, what, sid, exact):
        x = self.x
        x.extra_count("C09 synthetic filter applications")
        if exact:
            x.flag("candidate exactly at the threshold")
        for k, (ind, e) in enumerate(zip(inds, exp)):
            got = any(ind is q for q in kept)
            if got != e:
                kind = "accepted-too-close" if got else "rejected-far-enough"
                x.violate(
                    f"C09/filter-{kind}:{what.split('(')[0]}",
                    f"{what}: candidate {k} {'accepted' if got else 'rejected'}, but measured against the TRUE current centroids it is "
                    f"{'not ' if not e else ''}strictly farther than the threshold from every considered deme (nearest considered deme e.g. {sid})",
                )


MONITORS = [C09Monitor]


def _nontrivial(x):
    return "round with a moved deme on the target level" in x.flags or "centroid of a moved deme checked" in x.flags


def units(tier, seed):
    s = 1 + seed % 1000
    descs = []
    k = 0
    roots = ["SEA", "DE", "SHADE", "LHS"] if tier == "quick" else ["SEA", "DE", "SHADE", "LHS", "GA", "MWEA", "SOB", "DEd"]
    for r in roots:
        for c in ALL:
            for fk in ("far", "nbc_all", "nbc_active"):
                for ti, o in ((0, 1), (0, 2), (0, np.inf), (1, 1), (1, 2), (1, np.inf)):
                    k += 1
                    o = "inf" if o == np.inf else o
                    if fk == "far":
                        sp = {"kind": "composed", "L": 3, "gen": {"kind": "best"}, "deme_chain": [{"kind": "farenough", "dist": (0.05, 0.4)[ti], "ord": o}],
                              "tree_chain": [{"kind": "levellimit", "limit": 3}]}
                    else:
                        sp = {"kind": "composed", "L": 3, "gen": {"kind": "nbc", "factor": 2.0, "trunc": 1.0},
                              "deme_chain": [{"kind": "nbcfar", "factor": (0.3, 1.5)[ti], "ord": o, "only_active": fk == "nbc_active"}, {"kind": "demelimit", "limit": 1}],
                              "tree_chain": [{"kind": "levellimit", "limit": 3}]}
                    descs.append(dict(engines=[r, c], gens=1 + k % 2, Mh=5, seed=s, sprout=sp, obj=("twofunnel", "sphere_in", "plateau")[k % 3], box=("B_asym", "B_sym", "B_3d")[k % 3],
                                      lsc=[None, {"kind": "metaepoch", "m": 2 + k % 2}], maximize=bool((k // 2) % 2), hib=bool(k % 3 == 0)))
    for k2, eng in enumerate([("SEA", "DE", "CMAf"), ("DE", "SEA", "SHADE"), ("SEA", "CMAw", "LOC"), ("LHS", "DEd", "SEAX")]):
        for sk in ("simple", "nbc"):
            for hib in (False, True):
                descs.append(dict(engines=list(eng), gens=1, Mh=6, seed=s, sprout={"kind": sk, "L": 3, "far": 0.3} if sk == "simple" else {"kind": "nbc", "L": 3},
                                  lsc=[None, {"kind": "metaepoch", "m": 4}, {"kind": "metaepoch", "m": 2}], hib=hib))
    # the shipped factory with a generator factor that differs from the filter factor
    for k3, eng in enumerate([("SEA", "DE"), ("DE", "CMAf"), ("SHADE", "SEAX"), ("LHS", "DEd"), ("SEA", "DE", "CMAf"), ("GA", "SHADE")]):
        for gen_f, fil_f in ((1.0, 3.0), (3.0, 0.5), (0.5, 2.0)):
            for obj in ("twofunnel", "plateau"):
                descs.append(dict(engines=list(eng), gens=1, Mh=5, seed=s + k3, sprout={"kind": "nbc", "L": 3, "gen": gen_f, "fil": fil_f, "trunc": 0.8}, obj=obj,
                                  lsc=[None] + [{"kind": "metaepoch", "m": 3}] * (len(eng) - 1), pop=10))
    # parents with two individuals: truncation keeps one, the mean nearest-better distance is undefined
    for k4, eng in enumerate([("SEA", "SEA", "SHADE"), ("DE", "SEAX", "CMAf"), ("SEA", "GA")]):
        descs.append(dict(engines=list(eng), gens=1, Mh=6, seed=s + k4, sprout={"kind": "nbc", "L": 3}, obj="twofunnel", pop=2 if eng[0] != "DE" else 6,
                          lsc=[None] * len(eng)))
    # beyond the small scope (hmsmc/scale.py): populations of 100 / 150, more than 32 demes active on a level under each norm
    from ..scale import big_population_worlds, many_deme_worlds

    descs += [dict(d, sprout={"kind": "simple", "L": 3, "far": 0.4}) if d["sprout"]["kind"] == "simple" else d for d in big_population_worlds(tier, seed)[::2]]
    descs += [d for d in many_deme_worlds(tier, seed) if d.get("scale") == "demes"]
    return [{"kind": "run", "descs": c} for c in chunks(descs, 8)]


def run_unit(unit):
    return run_descs(Result(), ID, unit, unit["descs"], MONITORS, _nontrivial)


def finish(res, tier):
    for f, n in (("centroid of a moved deme checked", 200), ("round with a moved deme on the target level", 100), ("candidate exactly at the threshold", 50)):
        if res.flags[f] < n:
            raise Vacuous(f"coverage flag '{f}' seen only {res.flags[f]} times")
    if res.configs_completed < res.configs:
        raise Vacuous(f"{res.configs - res.configs_completed} configurations without any completed execution")
    return {k.replace("C09 ", "").replace(" ", "_"): v for k, v in res.extra.items()}


def replay(rep):
    return replay_run(MONITORS, rep)
