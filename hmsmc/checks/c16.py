"""C16 - problem wrappers are transparent and their counters follow simple laws.

Complete enumeration of wrapper stacks x directions x call sequences, against a plain reference
model of each wrapper, compared after EVERY call.
"""
from __future__ import annotations

import itertools
import math

import numpy as np

from ..explorer import Result, Vacuous
from ..world import h64

ID = "C16"
RULE = (
    "stacks = all sequences of depth 1..3 (quick) / 1..4 (thorough) over {counting, cutoff(0), cutoff(1), cutoff(2), cutoff(3), precision(opt=0, "
    "eps=1/2), stats} around a FunctionProblem, both directions; programs = all sequences of 5 (quick; 6 for depth <= 3 in thorough) evaluate calls "
    "whose objective values come from {optimum, optimum +- 1/2 (exactly on the precision boundary), 3/4, far, +inf, -inf, NaN (the objective itself may return the value a cutoff wrapper uses as sentinel)}; after every call the returned "
    "value, every wrapper's counter, ETA, hit flag, the verdict of SingularProblemPrecisionReached, bounds, maximize, worse_than, "
    "get_function_problem and the number of real objective invocations are compared with the reference model; plus every ordered pair of wrapper kinds around ONE shared inner problem, every interleaving of 5 calls through either wrapper (each counts what it forwarded); states = distinct (stack, "
    "counter vector, flags), transitions = calls; non-trivial = a sequence in which a cutoff refused or the precision was hit more than once"
)
ASSUMPTIONS = ["objective values from the stated alphabet (incl. +-inf and NaN)", "durations of the stats wrapper are not compared, only their number"]
EXPLANATION = "explicit-state exploration of the wrapper stack as a state machine driven by evaluate calls; the implementation is the transition function"

KINDS = ["count", "cut0", "cut1", "cut2", "cut3", "prec", "stats"]
VALS_MIN = [0.0, 0.5, -0.5, 0.75, 10.0, math.inf]
VALS_T4 = [0.0, 0.5, 0.75, math.inf, -math.inf, math.nan]


PREC = {"prec": (0.0, 0.5), "precK": (1000.0, 1e-3)}  # kind -> (optimum, precision)


class RefWrapper:
    def __init__(self, kind):
        self.kind = kind
        self.n = 0
        self.eta = math.inf
        self.hit = False
        self.cut = int(kind[3]) if kind.startswith("cut") else None


def ref_eval(ref_stack, value, maximize, calls):
    """Evaluate through the reference stack (outermost first). Returns the value."""

    def go(i):
        if i == len(ref_stack):
            calls[0] += 1
            return value
        w = ref_stack[i]
        if w.cut is not None and w.n >= w.cut:
            return -math.inf if maximize else math.inf
        v = go(i + 1)
        w.n += 1
        if w.kind in PREC and abs(v - (-PREC[w.kind][0] if maximize else PREC[w.kind][0])) <= PREC[w.kind][1] and not w.hit:
            w.eta = w.n
            w.hit = True
        return v

    return go(0)


TARGET = 0.25  # the user-defined innermost problem prefers fitness values close to this level

# call shapes: extra positional / keyword arguments for the objective f(x, offset=0.0, scale=1.0) = value * scale + offset
SHAPES = [((), {}), ((0.25,), {}), ((), {"scale": 2.0}), ((0.5,), {"scale": -1.0}), ((), {"offset": -0.5})]


def shaped(v, shape):
    a, k = shape
    offset = a[0] if a else k.get("offset", 0.0)
    return v * k.get("scale", 1.0) + offset


def build(kinds, maximize, feed, counter, use_cache=False, array_valued=False, inner="function"):
    from pyhms.core.problem import EvalCountingProblem, EvalCutoffProblem, FunctionProblem, PrecisionCutoffProblem, Problem, StatsGatheringProblem

    bounds = np.array([(-1.0, 2.0), (3.0, 4.5)])

    def f(x, offset=0.0, scale=1.0):
        counter[0] += 1
        if array_valued:
            # objectives written as `lambda x: -x**2` on a 1-D genome return a 1-element array
            return np.array([feed[0] * scale + offset])
        return feed[0] * scale + offset

    if inner == "user":
        # a user-written Problem whose order is not the plain numeric one: the closer to TARGET the better
        class TargetProblem(Problem):
            def evaluate(self, genome, *args, **kwargs):
                return f(genome, *args, **kwargs)

            def worse_than(self, a, b):
                return abs(a - TARGET) > abs(b - TARGET)

            @property
            def bounds(self):
                return bounds

            @property
            def maximize(self):
                return maximize

        fp = TargetProblem()
    else:
        fp = FunctionProblem(f, bounds=bounds, maximize=maximize, **({"use_cache": True} if use_cache else {}))
    p = fp
    objs = []
    for k in reversed(kinds):  # kinds[0] is the outermost
        if k == "count":
            p = EvalCountingProblem(p)
        elif k.startswith("cut"):
            p = EvalCutoffProblem(p, int(k[3]))
        elif k in PREC:
            p = PrecisionCutoffProblem(p, (-PREC[k][0] if maximize else PREC[k][0]), PREC[k][1])
        elif k == "stats":
            p = StatsGatheringProblem(p)
        objs.append(p)
    objs.reverse()
    return p, objs, fp, bounds


PAIRS = [(0.0, 1.0), (1.0, 0.0), (2.0, 2.0), (-1.0, math.inf), (-math.inf, 3.0)]


def run_stack(res, kinds, maximize, seqlen, vals, only_seq=None, use_cache=False, array_valued=False, inner="function", shapes=False):
    from pyhms.core.problem import get_function_problem
    from pyhms.stop_conditions import SingularProblemPrecisionReached

    x = np.array([0.5, 3.5])
    sgn = -1.0 if maximize else 1.0
    rep_base = {"check": ID, "unit": {}, "dev": []}
    for seq in ([only_seq] if only_seq is not None else itertools.product(range(len(vals)), repeat=seqlen)):
        feed = [0.0]
        counter = [0]
        top, objs, fp, bounds = build(kinds, maximize, feed, counter, use_cache, array_valued, inner)
        ref = [RefWrapper(k) for k in kinds]
        rcalls = [0]
        refused = False
        hits = 0
        res.executions += 1
        prev_state = h64((kinds, maximize, "init"))
        for step, vi in enumerate(seq):
            v = sgn * vals[vi]
            feed[0] = v
            if use_cache:
                # a memoising problem: every call of a sequence uses its own genome (no legitimate cache hit), so any
                # value served from a cache filled by ANOTHER problem object shows up as a wrong returned value
                x = np.array([0.5 + 0.125 * step, 3.5])
            if shapes:
                # extra positional / keyword arguments must reach the objective through every wrapper
                shape = SHAPES[(step + len(kinds)) % len(SHAPES)]
                got = top.evaluate(x, *shape[0], **shape[1])
                v = shaped(v, shape)
            else:
                got = top.evaluate(x)
            if array_valued and isinstance(got, np.ndarray):
                got = float(got[0])
            want = ref_eval(ref, v, maximize, rcalls)
            if math.isinf(want):
                refused = True
            if abs(v) <= 0.5 or abs(abs(v) - 1000.0) <= 1e-3:
                hits += 1
            if v != v:
                refused = True  # counts as non-trivial: an undefined objective value passed through the stack
            bad = None
            if not (got == want or (got != got and want != want)):
                bad = ("C16/returned-value", f"evaluate returned {got!r}, reference {want!r}")
            elif counter[0] != rcalls[0]:
                bad = ("C16/objective-invocations", f"objective invoked {counter[0]} times, reference {rcalls[0]}")
            else:
                for k, o, r in zip(kinds, objs, ref):
                    if o.n_evaluations != r.n:
                        bad = (f"C16/counter:{k}", f"{k} wrapper reports {o.n_evaluations} evaluations, reference {r.n}")
                        break
                    if k in PREC:
                        if o.hit_precision != r.hit or not (o.ETA == r.eta):
                            bad = ("C16/precision-bookkeeping", f"precision wrapper hit={o.hit_precision} ETA={o.ETA}, reference hit={r.hit} ETA={r.eta}")
                            break
                        if bool(SingularProblemPrecisionReached(o)(None)) != r.hit:
                            bad = ("C16/precision-stop-condition", "SingularProblemPrecisionReached disagrees with the sticky flag")
                            break
                    if k == "stats" and len(o.durations) != r.n:
                        bad = ("C16/stats-durations", f"stats wrapper holds {len(o.durations)} durations after {r.n} forwarded calls")
                        break
            if bad is None:
                if top.maximize is not maximize or any(o.maximize is not maximize for o in objs):
                    bad = ("C16/direction", "maximize differs from the innermost problem's")
                elif top.bounds is not bounds and not np.array_equal(top.bounds, bounds):
                    bad = ("C16/bounds", "bounds differ from the innermost problem's")
                elif inner == "function" and get_function_problem(top) is not fp:
                    bad = ("C16/unwrap", "get_function_problem does not return the innermost FunctionProblem")
                else:
                    for a, b in PAIRS:
                        exp = (abs(a - TARGET) > abs(b - TARGET)) if inner == "user" else ((a < b) if maximize else (a > b))
                        if bool(top.worse_than(a, b)) != exp:
                            bad = ("C16/worse-than" + (":user-defined-order" if inner == "user" else ""), f"worse_than({a}, {b}) = {top.worse_than(a, b)} under maximize={maximize}, the innermost problem says {exp}")
                            break
            st = h64((kinds, maximize, tuple((r.n, r.hit, r.eta) for r in ref)))
            res.states.add(st)
            res.transitions.add(h64((prev_state, vi, st)))
            prev_state = st
            if bad is not None:
                rep = dict(rep_base, desc={"stack": list(kinds), "maximize": maximize, "values": [sgn * vals[i] for i in seq], "failing_call": step + 1, "use_cache": use_cache, "array_valued": array_valued, "inner": inner, "shapes": shapes})
                res.add_violation(ID, bad[0], f"stack {'>'.join(kinds)} maximize={maximize} call {step + 1} of values {[sgn * vals[i] for i in seq]}: {bad[1]}", {}, rep)
                break
        if refused or hits >= 2:
            res.nontrivial.add(h64((kinds, maximize, seq)))
        res.outcomes.add(prev_state)
    if len(res.samples) < 2:
        res.samples.append({"stack_outermost_first": list(kinds), "maximize": maximize, "sequence_length": seqlen, "values": [sgn * v for v in vals]})


def stacks(depth):
    out = []
    for d in range(1, depth + 1):
        out += [tuple(s) for s in itertools.product(KINDS, repeat=d)]
    return out


def units(tier, seed):
    us = []
    if tier == "quick":
        ss = stacks(3)
        for i in range(0, len(ss), 10):
            us.append({"stacks": ss[i : i + 10], "len": 4, "vals": VALS_MIN + [-math.inf, math.nan]})
            us.append({"stacks": ss[i : i + 10], "len": 5, "vals": [0.0, 0.5, -0.5, 0.75]})
    if tier != "quick":
        ss = stacks(3)
        for i in range(0, len(ss), 4):
            us.append({"stacks": ss[i : i + 4], "len": 6, "vals": VALS_MIN})
        s4 = [tuple(s) for s in itertools.product(KINDS, repeat=4)]
        for i in range(0, len(s4), 40):
            us.append({"stacks": s4[i : i + 40], "len": 4, "vals": VALS_T4})
    # memoising problems (use_cache=True): one genome per call
    s2 = stacks(2)
    for i in range(0, len(s2), 14):
        us.append({"stacks": s2[i : i + 14], "len": 4, "vals": [0.25, 0.5, 0.75, 10.0], "use_cache": True})
    # a precision wrapper whose optimum is far from 0 (a relative tolerance would matter), also with an objective that
    # returns 1-element arrays (the wrappers must hand the objective's value on unchanged)
    sK = [tuple(t) for d in (1, 2, 3) for t in itertools.product(["count", "cut2", "precK", "stats"], repeat=d) if "precK" in t]
    for arr in (False, True):
        for i in range(0, len(sK), 8):
            us.append({"stacks": sK[i : i + 8], "len": 4, "vals": [1000.0, 1000.001, 1000.0025, 999.9985, 3.0], "array_valued": arr})
    # a user-written innermost Problem (own evaluate, an order that is not the numeric one), and evaluate calls that
    # carry extra positional / keyword arguments for the objective
    s3 = stacks(3 if tier == "quick" else 4)
    step = 20 if tier == "quick" else 60
    for i in range(0, len(s3), step):
        us.append({"stacks": s3[i : i + step], "len": 3, "vals": [0.0, 0.5, 0.75, 10.0], "inner": "user", "shapes": True})
        us.append({"stacks": s3[i : i + step], "len": 3, "vals": [0.0, 0.5, 0.75, 10.0], "inner": "function", "shapes": True})
    us.append({"kind": "diamond"})
    us.append({"kind": "long", "n": 72000, "cutoff": 70000})
    us.append({"kind": "long", "n": 34000, "cutoff": 40000})
    return us


def long_sequence(res, n_calls, cutoff):
    """Beyond the small scope: tens of thousands of calls through one stack (narrow integer counters, bounded buffers)."""
    from pyhms.core.problem import EvalCountingProblem, EvalCutoffProblem, FunctionProblem, PrecisionCutoffProblem, StatsGatheringProblem

    for mx in (False, True):
        calls = [0]

        def f(x):
            calls[0] += 1
            return 5.0 if calls[0] != cutoff - 2000 else 0.0  # the optimum is hit exactly once, late

        fp = FunctionProblem(f, bounds=np.array([(-1.0, 2.0), (3.0, 4.5)]), maximize=mx)
        count_in = EvalCountingProblem(fp)
        stats = StatsGatheringProblem(count_in)
        prec = PrecisionCutoffProblem(stats, 0.0, 0.5)
        cut = EvalCutoffProblem(prec, cutoff)
        top = EvalCountingProblem(cut)
        x = np.array([0.5, 3.5])
        worst = -math.inf if mx else math.inf
        rep = {"check": ID, "unit": {"kind": "long"}, "desc": {"long": [n_calls, cutoff], "maximize": mx}, "dev": []}
        bad = None
        for i in range(1, n_calls + 1):
            got = top.evaluate(x)
            want = worst if i > cutoff else (0.0 if i == cutoff - 2000 else 5.0)
            if got != want:
                bad = ("C16/returned-value:long-sequence", f"call {i} of {n_calls} (cutoff {cutoff}) returned {got!r}, reference {want!r}")
                break
        res.executions += 1
        fwd = min(n_calls, cutoff)
        if bad is None:
            for name, o, wantn in (("counting(outer)", top, n_calls), ("cutoff", cut, fwd), ("precision", prec, fwd), ("stats", stats, fwd), ("counting(inner)", count_in, fwd)):
                if o.n_evaluations != wantn:
                    bad = (f"C16/counter:long-sequence:{name.split('(')[0]}", f"{name} wrapper reports {o.n_evaluations} evaluations after {n_calls} calls (cutoff {cutoff}), reference {wantn}")
                    break
        if bad is None and calls[0] != fwd:
            bad = ("C16/objective-invocations:long-sequence", f"objective invoked {calls[0]} times, reference {fwd}")
        eta = cutoff - 2000 if n_calls >= cutoff - 2000 else math.inf
        if bad is None and (prec.ETA != eta or bool(prec.hit_precision) != (eta != math.inf)):
            bad = ("C16/precision-bookkeeping:long-sequence", f"precision wrapper ETA={prec.ETA} hit={prec.hit_precision}, reference ETA={eta}")
        if bad is None and len(stats.durations) != fwd:
            bad = ("C16/stats-durations:long-sequence", f"stats wrapper holds {len(stats.durations)} durations after {fwd} forwarded calls")
        if bad is not None:
            res.add_violation(ID, bad[0], bad[1], {}, rep)
        res.flags["long call sequence"] += 1
        res.states.add(h64(("long", n_calls, cutoff, mx)))


def diamond(res, only=None):
    """Two wrappers (every ordered pair of kinds) around ONE shared inner problem (a FunctionProblem, or an
    EvalCountingProblem around it), every interleaving of 5 calls through wrapper A or B: each wrapper counts
    exactly the calls IT forwarded, the shared inner counter and the objective see the sum (wave 13, C16u_1)."""
    from pyhms.core.problem import EvalCountingProblem, EvalCutoffProblem, FunctionProblem, PrecisionCutoffProblem, StatsGatheringProblem

    def wrap(k, inner, mx):
        if k == "count":
            return EvalCountingProblem(inner)
        if k.startswith("cut"):
            return EvalCutoffProblem(inner, int(k[3]))
        if k == "prec":
            return PrecisionCutoffProblem(inner, 0.0, 0.5)
        return StatsGatheringProblem(inner)

    x = np.array([0.5, 3.5])
    for ka, kb in itertools.product(KINDS, repeat=2):
        for mx in (False, True):
            for shared_counting in (False, True):
                for seq in itertools.product("AB", repeat=5):
                    key = [ka, kb, mx, shared_counting, "".join(seq)]
                    if only is not None and key != only:
                        continue
                    calls = [0]

                    def f(g):
                        calls[0] += 1
                        return 10.0

                    fp = FunctionProblem(f, bounds=np.array([(-1.0, 2.0), (3.0, 4.5)]), maximize=mx)
                    inner = EvalCountingProblem(fp) if shared_counting else fp
                    w = {"A": wrap(ka, inner, mx), "B": wrap(kb, inner, mx)}
                    kind = {"A": ka, "B": kb}
                    n = {"A": 0, "B": 0}
                    rep = {"check": ID, "unit": {"kind": "diamond"}, "desc": {"diamond": key}, "dev": []}
                    bad = None
                    for step, c in enumerate(seq):
                        cut = int(kind[c][3]) if kind[c].startswith("cut") else None
                        refused = cut is not None and n[c] >= cut
                        got = w[c].evaluate(x)
                        if not refused:
                            n[c] += 1
                        want = (-math.inf if mx else math.inf) if refused else 10.0
                        if got != want:
                            bad = ("C16/returned-value:shared-inner", f"call {step + 1} through wrapper {c} ({kind[c]}) returned {got!r}, reference {want!r}")
                        for c2 in "AB":
                            if bad is None and w[c2].n_evaluations != n[c2]:
                                bad = (f"C16/counter:shared-inner:{kind[c2]}", f"two wrappers ({ka}, {kb}) around one inner problem, calls {''.join(seq[: step + 1])}: wrapper {c2} ({kind[c2]}) reports {w[c2].n_evaluations} evaluations, it forwarded {n[c2]}")
                            if bad is None and kind[c2] == "stats" and len(w[c2].durations) != n[c2]:
                                bad = ("C16/stats-durations:shared-inner", f"stats wrapper {c2} holds {len(w[c2].durations)} durations after forwarding {n[c2]} calls (calls {''.join(seq[: step + 1])})")
                        if bad is None and (calls[0] != n["A"] + n["B"] or (shared_counting and inner.n_evaluations != n["A"] + n["B"])):
                            bad = ("C16/objective-invocations:shared-inner", f"objective invoked {calls[0]} times, wrappers forwarded {n['A'] + n['B']}")
                        if bad is not None:
                            break
                        res.transitions.add(h64(("diamond", ka, kb, mx, shared_counting, n["A"], n["B"], c)))
                        res.states.add(h64(("diamond", ka, kb, mx, shared_counting, n["A"], n["B"])))
                    res.executions += 1
                    if bad is not None:
                        res.add_violation(ID, bad[0], bad[1], {}, rep)
    res.flags["two wrappers around one shared inner problem (interleaved calls)"] += 1


def run_unit(unit):
    res = Result()
    if unit.get("kind") == "diamond":
        diamond(res)
        res.configs += 1
        res.configs_completed += 1
        res.status["ok"] += res.executions
        res.by_bound[0] += res.executions
        return res
    if unit.get("kind") == "long":
        long_sequence(res, unit["n"], unit["cutoff"])
        res.configs += 1
        res.configs_completed += 1
        res.status["ok"] += res.executions
        res.by_bound[0] += res.executions
        return res
    for kinds in unit["stacks"]:
        kinds = tuple(kinds)
        for mx in (False, True):
            run_stack(res, kinds, mx, unit["len"], unit["vals"], use_cache=unit.get("use_cache", False), array_valued=unit.get("array_valued", False),
                      inner=unit.get("inner", "function"), shapes=unit.get("shapes", False))
            if unit.get("shapes"):
                res.flags["stacks called with extra arguments" + (" (user-defined innermost problem)" if unit.get("inner") == "user" else "")] += 1
        res.configs += 1
        res.configs_completed += 1
    res.status["ok"] += res.executions
    res.by_bound[0] += res.executions
    return res


def finish(res, tier):
    if len(res.nontrivial) < 10000:
        raise Vacuous("few sequences with refusals / repeated precision hits")
    return {"exhaustive": True, "call_sequences": res.executions}


def replay(rep):
    d = rep["desc"]
    res = Result()
    if "diamond" in d:
        diamond(res, only=d["diamond"])
        return res.violations
    if "long" in d:
        long_sequence(res, d["long"][0], d["long"][1])
        return res.violations
    mx = d["maximize"]
    sgn = -1.0 if mx else 1.0
    base = [sgn * v for v in d["values"]]
    uniq = []
    for v in base:
        if v not in uniq:
            uniq.append(v)
    run_stack(res, tuple(d["stack"]), mx, len(base), uniq, only_seq=tuple(uniq.index(v) for v in base), use_cache=d.get("use_cache", False), array_valued=d.get("array_valued", False),
              inner=d.get("inner", "function"), shapes=d.get("shapes", False))
    return res.violations
