"""C01 - the objective is never evaluated outside the declared box bounds."""
from __future__ import annotations

import numpy as np

from ..explorer import Monitor, Result, Vacuous
from ..opworld import OPS, POPS
from ..rngshim import Shim
from ..runlib import chunks, minimize_run, rep_shapes, replay_run, run_descs, run_split_unit, shapes_h1, shapes_h2, shapes_h3_all, shapes_h3_cover, split_units
from ..world import _UNOBS, box_array, h64, in_box, seed_of

ID = "C01"
RULE = (
    "RUN: all 150 height-1/2 engine mixes x boxes {B_asym, B_dec, B_3d} x objectives {sphere_in, lin_corner} x both sprout mechanisms x both "
    "directions, 0 deviations (+ triples and minimize() in thorough); RUN+R: every draw call of 28 representative worlds deviated once to every "
    "adversarial in-support answer of its menu (bound 1 over ALL draw calls); OP: every operator / engine step x 8 structured parent "
    "populations (faces, corners, one ulp inside) x 3 boxes x R deviations bound 1 (quick) / 2 (thorough) over all draw calls of the step; "
    "oracle: every invoked point, every stored genome, every sprout seed, OptimizeResult.x inside the box, exactly; non-trivial = an execution "
    "in which at least one invoked point lies exactly on a face of the box"
)
ASSUMPTIONS = ["alphabets of DESIGN.md section 4", "RNG answers: menu of hmsmc/rngshim.py (in the support of each distribution)"]
EXPLANATION = "state = canonical tree census (RUN) / (operator, population, answer vector, produced points) (OP)"


def check_points(x, pts, box, what, eng=None):
    lo, hi = box[:, 0], box[:, 1]
    for p in pts:
        p = np.asarray(p, dtype=float)
        if not in_box(p, box):
            side = "nan" if np.any(p != p) else ("above-upper" if np.any(p > hi) else "below-lower")
            x.violate(f"C01/outside-box:{what}:{eng or '?'}:{side}", f"{what} {p.tolist()!r} lies outside the box {box.tolist()}", point=p.tolist())
        elif np.any(p == lo) or np.any(p == hi):
            x.flag("point exactly on a face")


class C01Monitor(Monitor):
    def __init__(self, x):
        super().__init__(x)
        self.n_checked = 0

    def scan_log(self):
        w = self.x.w
        log = w.log
        eng = self.x.desc.get("engines") or [self.x.desc.get("op")]
        for i in range(self.n_checked, len(log)):
            e = eng[log.level[i]] if log.level[i] < len(eng) else "?"
            check_points(self.x, [log.x[i]], w.box, "objective invoked at", e)
        self.n_checked = len(log)

    def on(self, kind, tree, info):
        x, w = self.x, self.x.w
        if kind in ("boundary", "end"):
            self.scan_log()
            engines = x.desc["engines"]
            for l, d in tree.all_demes:
                for gen in d.history:
                    check_points(x, [i.genome for i in gen], w.box, "stored genome", engines[l])
                sd = seed_of(d)
                if sd is not _UNOBS and sd is not None:
                    check_points(x, [sd.genome], w.box, "sprout seed", engines[l])
            x.flag("boundary checked")
            if kind == "end" and x.desc.get("prelude"):
                x.flag("second optimisation of the process, on a smaller box" + (" (level configs kept)" if x.desc.get("reuse_levels") else ""))
            if kind == "end":
                for l, d in tree.all_demes:
                    es = getattr(d, "_cma_es", None)
                    try:
                        if es is not None and es.stop() and not d.is_active:
                            x.flag("a CMA-ES deme terminated itself")
                    except Exception:
                        pass
                    if engines[l] == "SEAA" and x.desc.get("seaa_step_factor", 0) >= 1.0:
                        try:
                            if d._get_mutation_std() > float(np.max(w.box[:, 1] - w.box[:, 0])):
                                x.flag("adaptive mutation spread outgrew the box")
                        except Exception:
                            pass
        elif kind == "round_end":
            for d, c in info["seeds"].items():
                check_points(x, [i.genome for i in c.individuals], w.box, "sprout seed", x.desc["engines"][d.level])
        elif kind == "op_done":
            self.scan_log()
            for gen in info["generations"]:
                check_points(x, [i.genome for i in gen], w.box, "stored genome", info["op"])
        elif kind == "op_points":
            check_points(x, info["points"], w.box, "sampled point", x.desc["op"])

    def end(self, tree):
        self.scan_log()


MONITORS = [C01Monitor]


def _nontrivial(x):
    return "point exactly on a face" in x.flags


def units(tier, seed):
    s = 1 + seed % 1000
    descs = []
    shapes = shapes_h1() + shapes_h2()
    for eng in shapes:
        for box in ("B_asym", "B_dec", "B_3d"):
            for obj in ("sphere_in", "lin_corner"):
                for sk in ("simple", "nbc"):
                    for mx in (False, True):
                        descs.append(dict(engines=list(eng), gens=2, box=box, obj=obj, maximize=mx, Mh=3, seed=s, sprout={"kind": sk, "L": 2}, hib=(len(descs) % 3 == 0)))
    # a sampling spread that is large compared with the box (the default sample_std_dev = 1.0 on a box of
    # width 0.3 is such a case): the child's initial population needs many rejection rounds; and the
    # lower-case spelling of the local method's name
    kk = 0
    for eng in shapes_h2():
        for box in ("B_dec", "B_3d"):
            kk += 1
            descs.append(dict(engines=list(eng), gens=1, box=box, obj="lin_corner", maximize=bool(kk % 2), Mh=3, seed=s + kk % 3, sprout={"kind": ("simple", "nbc")[kk % 2], "L": 2},
                              std_factor=(2.0, 3.5)[kk % 2], loc_method=("l-bfgs-b", "L-BFGS-B")[kk % 2]))
    # penalty objectives (+-inf on part of the box) with the DE family, whose memories / weights are computed from fitness differences
    for eng in [e for e in shapes_h1() + shapes_h2() if any(v in ("SHADE", "DE", "DEd") for v in e)]:
        for mx in (False, True):
            kk += 1
            descs.append(dict(engines=list(eng), gens=3, box=("B_asym", "B_dec")[kk % 2], obj="infhole", maximize=mx, Mh=4, seed=s + kk % 3, sprout={"kind": ("simple", "nbc")[kk % 2], "L": 2}))
    # one problem object shared by all levels (the usual way of using pyhms), and a box with bounds that are exactly 0
    for k, eng in enumerate(shapes_h2() + shapes_h3_cover()[::4]):
        for box in ("B_zero", "B_asym", "B_sym"):
            descs.append(dict(engines=list(eng), gens=1 + k % 2, box=box, obj=("lin_corner", "sphere_in", "twofunnel")[k % 3], maximize=bool(k % 2), Mh=3, seed=s, shared_problem=True,
                              sprout={"kind": ("simple", "nbc")[k % 2], "L": 2}, request_probe=False))
    for k, eng in enumerate(shapes_h3_cover() if tier == "quick" else []):
        descs.append(dict(engines=list(eng), gens=1 + k % 2, box=("B_asym", "B_dec", "B_3d")[k % 3], obj=("lin_corner", "sphere_in")[k % 2], maximize=bool(k % 2), Mh=4, seed=s,
                          sprout={"kind": ("simple", "nbc", "nbclocal")[k % 3] if eng[2] == "LOC" else ("simple", "nbc")[k % 2], "L": 2}, hib=bool(k % 4 == 1)))
    if tier == "thorough":
        for k, eng in enumerate(shapes_h3_all()):
            descs.append(dict(engines=list(eng), gens=1 + k % 2, box=("B_asym", "B_dec", "B_3d")[k % 3], obj=("lin_corner", "sphere_in")[k % 2],
                              maximize=bool(k % 2), Mh=3, seed=s, sprout={"kind": ("simple", "nbc")[(k // 2) % 2], "L": 2}))
    # long runs: CMA-ES leaves run until they terminate themselves (optimum in a corner: the strategy's internal mean
    # lies outside the box by then), and an adaptive mutation spread that starts small and outgrows the box
    for k, eng in enumerate([("LHS", "CMAf"), ("SEA", "CMAs"), ("DE", "CMAw"), ("SOB", "DE", "CMAf")]):
        for box in ("B_asym", "B_3d"):
            descs.append(dict(engines=list(eng), gens=10, box=box, obj="lin_corner", maximize=bool(k % 2), Mh=14, seed=s + k, sprout={"kind": "simple", "L": 1}, want_cma_stop=True))
    for k, eng in enumerate([("SEAA",), ("SEAA", "DE"), ("SEAA", "CMAf"), ("LHS", "SEAA")]):
        for box in ("B_sym", "B_dec", "B_3d"):
            descs.append(dict(engines=list(eng), gens=3, box=box, obj=("sphere_in", "lin_corner")[k % 2], maximize=bool(k % 2), Mh=8, seed=s + k, sprout={"kind": "simple", "L": 1},
                              mstd_factor=0.1, seaa_step_factor=2.0, lsc=[None] * len(eng)))
    # beyond the small scope (hmsmc/scale.py): run once each
    from ..scale import big_population_worlds, high_dimension_worlds, long_local_search_worlds

    descs += big_population_worlds(tier, seed) + high_dimension_worlds(tier, seed) + long_local_search_worlds(tier, seed)[:1]
    # DE with a scaling factor above 1 (donors overshoot by more than one box width: one mirror image is not enough), and boxes whose upper
    # face is missed by one ulp when it is computed as lower + 1.0 * width, with local searches that end on faces and in corners
    for k, eng in enumerate([("DE",), ("DE", "SEA"), ("SEA", "DE"), ("DE", "CMAf")]):
        for sc in (1.5, 1.9):
            descs.append(dict(engines=list(eng), gens=3, box=("B_asym", "B_3d", "B_ulp")[k % 3], obj=("lin_corner", "sphere_in")[k % 2], maximize=bool(k % 2), Mh=4, seed=s + k, de_scaling=sc,
                              sprout={"kind": "simple", "L": 2}))
    for k, eng in enumerate([("SEA", "LOC"), ("DE", "LOC"), ("LHS", "LOC"), ("SEA", "CMAf", "LOC")]):
        for mx in (False, True):
            descs.append(dict(engines=list(eng), gens=1, box="B_ulp", obj="lin_corner", maximize=mx, Mh=4, seed=s + k, sprout={"kind": "simple", "L": 2}, loc_maxiter=40,
                              loc_method=(None, "Nelder-Mead")[k % 2]))
    # integer bounds arrays; a spread so wide in five dimensions that fewer than one draw in a thousand is accepted
    for k, eng in enumerate([("SEA", "DE"), ("LHS", "CMAf"), ("DE", "SEA"), ("SOB", "LOC"), ("SHADE", "SEAX")]):
        descs.append(dict(engines=list(eng), gens=2, box="B_int", int_bounds=True, obj=("lin_corner", "sphere_in")[k % 2], maximize=bool(k % 2), Mh=3, seed=s + k, sprout={"kind": ("simple", "nbc")[k % 2], "L": 2}))
    for k, eng in enumerate([("SEA", "DE"), ("DE", "SEA"), ("LHS", "SHADE")]):
        descs.append(dict(engines=list(eng), gens=1, box="B_5d", obj="sphere_in", maximize=bool(k % 2), Mh=2, seed=s + k, std_factor=3.5, sprout={"kind": "simple", "L": 1}, time_cap=60.0))
    us = [{"kind": "run", "descs": c} for c in chunks(descs, 40)]
    # a second optimisation in the same process on a SMALLER box inside the first one (zooming in), each pair in a brand-new
    # interpreter: with fresh objects throughout, and with the level-config objects kept and pointed at the new problem
    for k, eng in enumerate([("SEA", "CMAf"), ("LHS", "CMAw"), ("DE", "CMAs"), ("SEA", "DE"), ("SOB", "LOC"), ("LHS", "SOB"), ("SEAX", "SHADE"), ("GA", "MWEA")]):
        first = dict(engines=list(eng), gens=1, box="B_sym", obj="sphere_in", Mh=3, seed=s, sprout={"kind": "simple", "L": 2}, choices="")
        for j, box in enumerate(("B_asym", "B_zero")):
            second = dict(engines=list(eng), gens=2, box=box, obj="lin_corner", maximize=bool((k + j) % 2), Mh=3, seed=s + 1, sprout={"kind": ("simple", "nbc")[j], "L": 2})
            us.append({"kind": "run", "descs": [dict(second, prelude=[first])], "fresh_process": True})
            us.append({"kind": "run", "descs": [dict(second, prelude=[dict(first, reuse_levels=f"zoom{k}")], reuse_levels=f"zoom{k}")], "fresh_process": True})
    # R deviations, bound 1 over every draw call
    rshapes = rep_shapes() if tier == "thorough" else rep_shapes()[:14]
    for k, eng in enumerate(rshapes):
        desc = dict(engines=list(eng), gens=2, box=("B_dec", "B_asym")[k % 2], obj="lin_corner", maximize=bool(k % 2), Mh=2, seed=s,
                    sprout={"kind": "simple", "L": 2}, choices="R")
        us += split_units(desc, 1, "R", {"kind": "runR"}, shim_factory=Shim)
    # OP
    ops = []
    for op in OPS:
        for pop in POPS:
            for box in ("B_dec", "B_asym", "B_3d"):
                ops.append(dict(op=op, pop=pop, box=box, obj="lin_corner", maximize=False, seed=s, choices="R"))
    b = 1 if tier == "quick" else 2
    us += [{"kind": "op", "descs": c, "bound": b} for c in chunks(ops, 6 if b == 2 else 24)]
    if tier == "thorough":
        us.append({"kind": "minimize", "seed": s})
    return us


def run_unit(unit):
    res = Result()
    if unit["kind"] == "run":
        run_descs(res, ID, unit, unit["descs"], MONITORS, _nontrivial)
    elif unit["kind"] == "runR":
        return run_split_unit(ID, unit, MONITORS, _nontrivial, shim_factory=Shim)
    elif unit["kind"] == "op":
        run_descs(res, ID, unit, unit["descs"], MONITORS, _nontrivial, bound=unit["bound"], kinds="R", shim_factory=Shim)
    elif unit["kind"] == "minimize":
        for box in ("B_asym", "B_dec", "B_3d", "B_sym"):
            for N in (30, 150, 400):
                cf, r = minimize_run(box, "lin_corner", unit["seed"], maxfun=N)
                b = box_array(box)
                res.executions += 1
                res.status["ok"] += 1
                res.by_bound[0] += 1
                rep = {"check": ID, "unit": unit, "desc": {"minimize": {"maxfun": N}, "box": box}, "dev": []}
                pts = [np.frombuffer(c, dtype=float) for c in cf.calls] + [np.asarray(r.x, dtype=float)]
                for p in pts:
                    if not in_box(p, b):
                        res.add_violation(ID, "C01/outside-box:minimize", f"minimize on {box}: point {p.tolist()} outside the box", {}, rep)
                res.states.add(h64(("minimize", box, N)))
        res.configs += 1
        res.configs_completed += 1
    return res


def finish(res, tier):
    if len(res.nontrivial) < 500:
        raise Vacuous("fewer than 500 executions with a point exactly on a face")
    if res.dev_kinds["R"] < 1000:
        raise Vacuous("fewer than 1000 RNG deviations explored")
    for f in ("a CMA-ES deme terminated itself", "adaptive mutation spread outgrew the box", "second optimisation of the process, on a smaller box",
              "second optimisation of the process, on a smaller box (level configs kept)"):
        if res.flags[f] < 4:
            raise Vacuous(f"coverage flag '{f}' seen in {res.flags[f]} executions only")
    if res.configs_completed < res.configs:
        raise Vacuous(f"{res.configs - res.configs_completed} configurations without any completed execution")
    return {}


def replay(rep):
    if "minimize" in rep["desc"]:
        r = run_unit(rep["unit"])
        return r.violations
    sf = Shim if ("R" in rep["desc"].get("choices", "")) else None
    return replay_run(MONITORS, rep, shim_factory=sf)
