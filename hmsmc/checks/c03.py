"""C03 - evaluation counts are exact; evaluation budgets are hard limits."""
from __future__ import annotations

from ..explorer import Result, Vacuous
from ..monitors import C03Monitor
from ..runlib import chunks, minimize_run, replay_run, run_descs, shapes_h1, shapes_h2, shapes_h3_all, shapes_h3_cover
from ..world import ROOTS, h64

ID = "C03"
MONITORS = [C03Monitor]
RULE = (
    "RUN: engine mixes (all 150 height-1/2 shapes; 196 / 1960 triples) x global conditions {metaepoch, eval limit, weighted eval limit x3} "
    "with one recorder per level (different objective per level); the oracle runs at EVERY consult of the global condition, every "
    "local-condition consult, every boundary; BUDGET: minimize(maxfun=N) for every N in 1..Nmax and maxiter 1..4 on two boxes, and an "
    "evaluation-cutoff wrapper with every cutoff N in 1..60 under every root engine; non-trivial = run with >= 2 demes on >= 2 levels, "
    "or a budget run in which the cutoff actually refused evaluations"
)
ASSUMPTIONS = ["alphabets of DESIGN.md section 4", "the recorder objective is the only path to the user function"]
EXPLANATION = "state = canonical tree census at every consult; transitions = consult-to-consult steps of the real run"


def _gscs():
    return [{"kind": "metaepoch", "n": 3}, {"kind": "evals", "n": 70}, {"kind": "fevals", "n": 50, "weights": "equal"},
            {"kind": "fevals", "n": 30, "weights": "root"}, {"kind": "fevals", "n": 60, "weights": [1, 2, 3]}]


def units(tier, seed):
    s = 1 + seed % 1000
    descs = []
    shapes = shapes_h1() + shapes_h2() + (shapes_h3_cover() if tier == "quick" else shapes_h3_all())
    gs = _gscs()
    for k, eng in enumerate(shapes):
        for j, g in enumerate(gs if (tier == "thorough" and len(eng) < 3) else [gs[k % len(gs)], gs[(k + 2) % len(gs)]]):
            descs.append(dict(engines=list(eng), gens=1 + (k + j) % 3, gsc=g, Mh=4, seed=s, levelshift=True, obj=("twofunnel", "plateau", "sphere_in", "const")[(k + j) % 4],
                              sprout={"kind": ("simple", "nbc")[(k + j) % 2], "L": 2}, hib=bool((k // 3) % 2),
                              lsc=[None] + [{"kind": "metaepoch", "m": 2}] * (len(eng) - 1)))
    # an objective that legitimately returns the direction's worst value (+-inf) is still an evaluation
    for k, eng in enumerate(shapes_h1() + shapes_h2()[::3]):
        for mx in (False, True):
            descs.append(dict(engines=list(eng), gens=2, gsc=gs[k % len(gs)], Mh=4, seed=s, obj="infhole", maximize=mx, sprout={"kind": ("simple", "nbc")[k % 2], "L": 2},
                              cutoff=([25, 20] if k % 4 == 0 else None)))
    # other local methods than the default (simplex, direction-set, SQP, trust region ...), optimum in a corner of the box / flat
    # objective; user-assembled engines, one of which evaluates through the problem its ea_class was created with
    for k, m in enumerate(["Nelder-Mead", "Powell", "trust-constr", "L-BFGS-B"]):  # TNC, SLSQP, COBYLA: pyhms' callback signature is not supported by scipy for them (AttributeError)
        for j, eng in enumerate([("SEA", "LOC"), ("LHS", "DE", "LOC")]):
            descs.append(dict(engines=list(eng), gens=1, gsc=gs[(k + j) % len(gs)], Mh=3, seed=s + k, obj=("lin_corner", "sphere_in", "plateau")[(k + j) % 3], loc_method=m, loc_maxiter=(150, 5)[j], maximize=bool((k + j) % 2),
                              sprout={"kind": "simple", "L": 2}, box=("B_asym", "B_sym")[j]))
    for k, eng in enumerate([("UEAi",), ("UEAi", "DE"), ("SEA", "UEAi"), ("UEA3", "UEAm"), ("UEAm", "UEAi", "LOC"), ("LHS", "UEA3")]):
        for j in range(2):
            descs.append(dict(engines=list(eng), gens=1 + j, gsc=gs[(k + j) % len(gs)], Mh=4, seed=s + k, levelshift=True, obj=("twofunnel", "sphere_in")[j], maximize=bool(j),
                              sprout={"kind": ("simple", "nbc")[j], "L": 2}, hib=bool(k % 2)))
    # beyond the small scope (hmsmc/scale.py): more than 32767 evaluations on one level, local searches of hundreds of iterations
    from ..scale import big_population_worlds, long_local_search_worlds, many_evaluation_worlds

    descs += [dict(d, gsc=d.get("gsc", gs[i % len(gs)])) for i, d in enumerate(many_evaluation_worlds(tier, seed) + long_local_search_worlds(tier, seed) + big_population_worlds(tier, seed)[:4])]
    # the SAME seeded configuration run a second time in one process (fresh objects throughout): whatever the first run left behind in the
    # library (class-level memo tables keyed by deme id or genome ...) must not answer for the objective
    for k, eng in enumerate([("SEA", "LOC"), ("LHS", "DE", "LOC"), ("DE", "CMAf"), ("SHADE", "SEA"), ("SOB", "LOC")]):
        w0 = dict(engines=list(eng), gens=1, gsc=gs[k % len(gs)], Mh=3, seed=s + k, obj=("twofunnel", "sphere_in")[k % 2], maximize=bool(k % 2), sprout={"kind": "simple", "L": 2}, loc_maxiter=20)
        descs.append(dict(w0, prelude=[dict(w0, choices="")]))
    us = [{"kind": "run", "descs": c} for c in chunks(descs, 12)]
    us.append({"kind": "minimize-both", "seed": s})
    us.append({"kind": "minimize-long", "seed": s})
    us.append({"kind": "minimize-inf", "seed": s})
    nmax = 120 if tier == "quick" else 400
    for box in ("B_asym", "B_dec"):
        for c in chunks(list(range(1, nmax + 1)), 20):
            us.append({"kind": "minimize", "box": box, "Ns": c, "seed": s})
        us.append({"kind": "minimize-iter", "box": box, "seed": s})
    cut = []
    for r in ROOTS:
        for N in range(1, 61):
            cut.append(dict(engines=[r, ("CMAf", "DE", "LOC", "SHADE")[N % 4]], gens=2, Mh=4, seed=s, cutoff=[N, N + 3],
                            gsc={"kind": "horizon"}, sprout={"kind": "simple", "L": 2}))
    us += [{"kind": "cutoff", "descs": c} for c in chunks(cut, 30)]
    return us


def _nontrivial(x):
    if x.tree is None or x.status != "ok":
        return False
    if x.desc.get("cutoff") is not None:
        return "cutoff refusing (count clause suspended)" in x.flags
    return len(x.tree.all_demes) >= 2 and "consult checked" in x.flags


def _min_check(res, unit, box, kw, seed, obj="twofunnel"):
    cf, r = minimize_run(box, obj, seed, **kw)
    res.executions += 1
    res.by_bound[0] += 1
    res.status["ok"] += 1
    res.states.add(h64(("minimize", box, tuple(kw.items()), len(cf.calls), r.nfev)))
    res.transitions.add(h64(("minimize-run", box, tuple(kw.items()))))
    res.outcomes.add(h64((len(cf.calls), r.nfev)))
    rep = {"check": ID, "unit": unit, "desc": {"minimize": kw, "box": box, "seed": seed, "obj": obj}, "dev": []}
    N = kw.get("maxfun")
    if N is not None:
        if len(cf.calls) > N:
            res.add_violation(ID, "C03/minimize-budget-exceeded", f"minimize(maxfun={N}) invoked fun {len(cf.calls)} times", {}, rep)
        if len(cf.calls) == N:
            res.nontrivial.add(h64(("min", box, N)))
            res.flags["budget exhausted exactly"] += 1
    if len(cf.calls) > 10000:
        res.flags["minimize run with more than 10000 calls"] += 1
    if r.nfev != len(cf.calls):
        res.add_violation(ID, "C03/minimize-nfev", f"minimize({kw}) reports nfev={r.nfev}, fun was called {len(cf.calls)} times", {"box": box}, rep)
    else:
        res.flags["nfev == calls"] += 1


def run_unit(unit):
    res = Result()
    if unit["kind"] in ("run", "cutoff"):
        run_descs(res, ID, unit, unit["descs"], MONITORS, _nontrivial)
    elif unit["kind"] == "minimize":
        for N in unit["Ns"]:
            _min_check(res, unit, unit["box"], {"maxfun": N}, unit["seed"])
        res.configs += 1
        res.configs_completed += 1
    elif unit["kind"] == "minimize-both":
        for box in ("B_asym", "B_dec"):
            for N in (1, 5, 17, 40, 57, 90, 120):
                for M in (1, 2, 3, 5, 40):
                    _min_check(res, unit, box, {"maxfun": N, "maxiter": M}, unit["seed"])
        res.configs += 1
        res.configs_completed += 1
    elif unit["kind"] == "minimize-long":
        # maxiter only, long enough to request more than pyhms' default budget of 10000 evaluations
        _min_check(res, unit, "B_6d", {"maxiter": 450}, unit["seed"], obj="sphere_in")
        res.configs += 1
        res.configs_completed += 1
    elif unit["kind"] == "minimize-inf":
        for box in ("B_asym", "B_dec"):
            for N in (10, 30, 60, 100, 150):
                _min_check(res, unit, box, {"maxfun": N}, unit["seed"], obj="infhole")
                _min_check(res, unit, box, {"maxfun": N}, unit["seed"], obj="nanhalf")
            for M in (1, 2, 4):
                for obj in ("nanhole", "nanhalf", "infhole"):
                    _min_check(res, unit, box, {"maxiter": M}, unit["seed"], obj=obj)
        res.configs += 1
        res.configs_completed += 1
    elif unit["kind"] == "minimize-iter":
        for n in (1, 2, 3, 4):
            _min_check(res, unit, unit["box"], {"maxiter": n}, unit["seed"])
        res.configs += 1
        res.configs_completed += 1
    return res


def finish(res, tier):
    if res.flags["consult checked"] < 500:
        raise Vacuous("fewer than 500 executions checked at consults")
    if res.flags["cutoff refusing (count clause suspended)"] < 50:
        raise Vacuous("cutoff wrappers hardly ever refused")
    if res.flags["budget exhausted exactly"] < 20:
        raise Vacuous("minimize budgets hardly ever exhausted")
    if res.configs_completed < res.configs:
        raise Vacuous(f"{res.configs - res.configs_completed} configurations without any completed execution")
    return {"count_comparisons": dict(res.extra)}


def replay(rep):
    if "minimize" in rep["desc"]:
        r = Result()
        _min_check(r, rep["unit"], rep["desc"]["box"], rep["desc"]["minimize"], rep["desc"].get("seed", 1), rep["desc"].get("obj", "twofunnel"))
        return r.violations
    return replay_run(MONITORS, rep)
