"""C02 - stored individuals carry the true fitness of their genome; history is immutable."""
from __future__ import annotations

import numpy as np

from ..explorer import Monitor, Result, Vacuous
from ..monitors import C02Monitor
from ..opworld import ENGINE_OPS, OPS, POPS
from ..rngshim import Shim
from ..runlib import chunks, minimize_run, rep_shapes, replay_run, run_descs, run_split_unit, shapes_h1, shapes_h2, shapes_h3_all, shapes_h3_cover, split_units
from ..world import box_array, h64, make_objective

ID = "C02"
RULE = (
    "RUN: all 150 height-1/2 engine mixes (+196 / 1960 triples) x boxes x objectives x both mechanisms x both directions, plus per-level "
    "different objectives and evaluation-cutoff wrappers (sentinel clause); at every boundary every individual reachable through the public "
    "API (every generation of every history, deme/tree best, current best, sprout seeds, seeds returned by every round) is re-evaluated with a "
    "pure copy of its level's objective and compared bitwise; byte digests of every recorded generation are compared at every later boundary; "
    "RUN+R: every draw call of the representative worlds deviated once (zero noise / no crossover / same parents force the unchanged-genome "
    "paths); OP: engine steps and operators on populations with duplicates under R bound 1 (quick) / 2 (thorough), parents' arrays compared "
    "before/after; minimize(): (x, fun) re-evaluated; non-trivial = an execution in which an individual kept its parent's fitness without "
    "re-evaluation (fewer objective calls than individuals produced) or the sentinel clause was exercised"
)
ASSUMPTIONS = ["alphabets of DESIGN.md section 4", "objectives are pure; the harness-side copy is the same code as the recorded objective"]
EXPLANATION = "state = canonical tree census (RUN) / (operator, population, answer vector, produced points) (OP)"


class RunMon(C02Monitor):
    def end(self, tree):
        x = self.x
        if tree is None:
            return
        n_inds = sum(len(g) for _, d in tree.all_demes for g in d.history)
        if len(x.w.log) < n_inds and not any(type(d).__name__ == "LocalDeme" for _, d in tree.all_demes):
            x.flag("fitness inherited without re-evaluation")


class OpMon(Monitor):
    def on(self, kind, tree, info):
        x, w = self.x, self.x.w
        if kind == "op_done":
            produced = 0
            for gi, gen in enumerate(info["generations"]):
                for ind in gen:
                    produced += 1
                    g = np.asarray(ind.genome, dtype=float)
                    fit = ind.fitness
                    x.extra_count("C02 individuals re-evaluated")
                    if fit is None or fit != fit:
                        x.violate(f"C02/unevaluated:{info['op']}", f"{info['op']}: produced an individual without fitness")
                        continue
                    true = w.pure(g)
                    if true != fit:
                        x.violate(f"C02/fitness-mismatch:{info['op']}", f"{info['op']}: stored fitness {fit!r} != objective value {true!r} of its genome {g.tolist()}")
            if len(w.log) < produced:
                x.flag("fitness inherited without re-evaluation")
            for (g0, f0), p in zip(w.parents, info["parents"]):
                if np.asarray(p.genome, dtype=float).tobytes() != g0.tobytes() or not (p.fitness == f0):
                    x.violate(f"C02/parents-mutated:{info['op']}", f"{info['op']}: a parent individual was modified in place")
        elif kind == "op_parent_arrays":
            G = np.array([g for g, _ in w.parents])
            F = np.array([f for _, f in w.parents])
            if G.tobytes() != np.asarray(info["genomes"], dtype=float).tobytes() or F.tobytes() != np.asarray(info["fitnesses"], dtype=float).tobytes():
                x.violate(f"C02/parent-arrays-mutated:{x.desc['op']}", f"{x.desc['op']}: the operator modified its input population in place")


def _nontrivial(x):
    return "fitness inherited without re-evaluation" in x.flags or "sentinel accepted" in x.flags


def units(tier, seed):
    s = 1 + seed % 1000
    descs = []
    shapes = shapes_h1() + shapes_h2() + (shapes_h3_cover() if tier == "quick" else shapes_h3_all())
    boxes = ("B_asym", "B_dec", "B_3d")
    objs = ("sphere_in", "lin_corner", "plateau", "twofunnel", "tiny_offset")
    k = 0
    for eng in shapes:
        for mx in (False, True):
            for j in range(2 if len(eng) < 3 else 1):
                k += 1
                d = dict(engines=list(eng), gens=1 + k % 3, box=boxes[k % 3], obj=objs[k % 5], maximize=mx, Mh=4, seed=s, observing_gsc=bool((k // 2) % 2),
                         sprout={"kind": ("simple", "nbc")[(k // 2) % 2], "L": 2}, levelshift=bool(k % 2), pmut=(1.0, 0.5)[(k // 3) % 2], hib=bool(k % 7 == 0))
                if k % 5 == 0:
                    d["cutoff"] = [20 + k % 17] + [15 + k % 11] * (len(eng) - 1)
                if k % 4 == 1:
                    # the root's problem inside a precision wrapper whose declared optimum is not 0 (and is beaten by some points)
                    d["precision"] = {"opt": (0.75, -3.0, 1000.0)[(k // 4) % 3], "eps": 1e-3}
                if len(eng) == 3 and "LOC" == eng[2] and k % 2:
                    d["sprout"] = {"kind": "nbclocal", "L": 2}
                descs.append(d)
    # memoising problems (use_cache=True), a different objective per level: a value cached for one objective must never
    # be served for another (the sprout seed is evaluated on both levels)
    for k2, eng in enumerate([e for e in shapes_h2() if e[1] in ("SEA", "DE", "SHADE", "SEAX", "GA", "DEd", "MWEA")][:: (1 if tier == "thorough" else 3)]):
        descs.append(dict(engines=list(eng), gens=1 + k2 % 2, box=boxes[k2 % 3], obj=objs[k2 % 4], maximize=bool(k2 % 2), Mh=3, seed=s, levelshift=True, use_cache=True,
                          sprout={"kind": ("simple", "nbc")[k2 % 2], "L": 2}))
    for k4, eng in enumerate(shapes_h2()[::4]):
        descs.append(dict(engines=list(eng), gens=2, box=boxes[k4 % 3], obj=objs[k4 % 4], maximize=bool(k4 % 2), Mh=3, seed=s, array_memo=True, sprout={"kind": ("simple", "nbc")[k4 % 2], "L": 2}))
    # objective undefined (NaN) on part of the box: a stored NaN must be the value of that very genome, and never turn into +-inf
    for k3, eng in enumerate([e for e in shapes_h1() + shapes_h2() if not any(v.startswith("CMA") or v == "LOC" for v in e)][:: (1 if tier == "thorough" else 2)]):
        for mx in (False, True):
            descs.append(dict(engines=list(eng), gens=2, box=boxes[k3 % 2], obj=("nanhole", "nanhalf")[k3 % 2], maximize=mx, Mh=3, seed=s + k3 % 3, kelites=1 + k3 % 2,
                              sprout={"kind": ("simple", "nbc")[k3 % 2], "L": 2}))
    # an objective with a non-uniform return type: a Python int (penalty) on part of the box, floats elsewhere
    for k5, eng in enumerate(shapes_h1() + shapes_h2()[:: (2 if tier == "thorough" else 5)]):
        descs.append(dict(engines=list(eng), gens=2, box=boxes[k5 % 2], obj="intpen", maximize=bool(k5 % 2), Mh=3, seed=s + k5 % 3, sprout={"kind": ("simple", "nbc")[k5 % 2], "L": 2},
                          pop=(6, 10)[k5 % 2]))
    # beyond the small scope (hmsmc/scale.py): run once each
    from ..scale import big_population_worlds, high_dimension_worlds, long_local_search_worlds

    descs += big_population_worlds(tier, seed) + high_dimension_worlds(tier, seed) + long_local_search_worlds(tier, seed)[:1]
    # memoising problems in long runs: a converged population whose members differ in the last digits only must still get its own values
    for k6, eng in enumerate([("DE",), ("DE", "DE"), ("SHADE",), ("SEA", "DE")]):
        descs.append(dict(engines=list(eng), gens=4, box=("B_dec", "B_asym")[k6 % 2], obj="sphere_in", maximize=bool(k6 % 2), Mh=45, seed=s + k6, use_cache=True, pop=6,
                          sprout={"kind": "simple", "L": 1}, lsc=[None] * len(eng), scale="history"))
    us = [{"kind": "run", "descs": c} for c in chunks(descs, 25)]
    rshapes = rep_shapes() if tier == "thorough" else rep_shapes()[14:]
    for k, eng in enumerate(rshapes):
        desc = dict(engines=list(eng), gens=2, box=("B_asym", "B_dec")[k % 2], obj=("plateau", "lin_corner")[k % 2], maximize=bool(k % 2), Mh=2, seed=s,
                    sprout={"kind": "simple", "L": 2}, choices="R", pmut=0.5)
        us += split_units(desc, 1, "R", {"kind": "runR"}, shim_factory=Shim)
    ops = []
    for op in OPS:
        if op in ("sample_normal", "sample_uniform"):
            continue
        for pop in ("duplicates", "tied", "corners", "interior", "upper"):
            for mx in (False, True):
                ops.append(dict(op=op, pop=pop, box=("B_asym", "B_dec")[mx], obj="plateau" if pop == "tied" else "sphere_in", maximize=mx, seed=s, choices="R", pmut=0.5))
    b = 1 if tier == "quick" else 2
    us += [{"kind": "op", "descs": c, "bound": b} for c in chunks(ops, 5 if b == 2 else 20)]
    us.append({"kind": "minimize", "seed": s, "Ns": list(range(5, 200, 13)) if tier == "quick" else list(range(1, 400, 7))})
    return us


def run_unit(unit):
    res = Result()
    if unit["kind"] == "run":
        run_descs(res, ID, unit, unit["descs"], [RunMon], _nontrivial)
    elif unit["kind"] == "runR":
        return run_split_unit(ID, unit, [RunMon], _nontrivial, shim_factory=Shim)
    elif unit["kind"] == "op":
        run_descs(res, ID, unit, unit["descs"], [OpMon], _nontrivial, bound=unit["bound"], kinds="R", shim_factory=Shim)
    elif unit["kind"] == "minimize":
        for box in ("B_asym", "B_dec"):
            f = make_objective("twofunnel", box_array(box), False)
            for N in unit["Ns"]:
                cf, r = minimize_run(box, "twofunnel", unit["seed"], maxfun=N)
                res.executions += 1
                res.status["ok"] += 1
                res.by_bound[0] += 1
                res.states.add(h64(("minimize", box, N)))
                rep = {"check": ID, "unit": unit, "desc": {"minimize": {"maxfun": N}, "box": box}, "dev": []}
                if f(r.x) != r.fun:
                    res.add_violation(ID, "C02/minimize-fun-not-f-of-x", f"minimize(maxfun={N}) on {box}: fun={r.fun!r} but f(x)={f(r.x)!r}", {}, rep)
                else:
                    res.flags["minimize (x, fun) consistent"] += 1
        res.configs += 1
        res.configs_completed += 1
    return res


def finish(res, tier):
    if res.extra["C02 individuals re-evaluated"] < 100000:
        raise Vacuous("fewer than 100000 individuals re-evaluated")
    if res.flags["sentinel accepted"] < 20 or res.flags["fitness inherited without re-evaluation"] < 200:
        raise Vacuous("sentinel / unchanged-genome paths hardly exercised")
    if res.configs_completed < res.configs:
        raise Vacuous(f"{res.configs - res.configs_completed} configurations without any completed execution")
    return {"individuals_re_evaluated": res.extra["C02 individuals re-evaluated"]}


def replay(rep):
    if "minimize" in rep["desc"]:
        return run_unit(rep["unit"]).violations
    sf = Shim if ("R" in rep["desc"].get("choices", "")) else None
    return replay_run([OpMon] if "op" in rep["desc"] else [RunMon], rep, shim_factory=sf)
