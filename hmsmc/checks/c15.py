"""C15 - nearest-better clustering returns exactly the defined cluster seeds."""
from __future__ import annotations

import itertools
import math

import numpy as np

from ..explorer import Result, Vacuous
from ..ref.nbc import nbc_reference
from ..world import h64

ID = "C15"
RULE = (
    "populations = all sets of n distinct points of small integer lattices (2-D 4x4: n<=3 quick / n<=5 thorough; 2-D 3x3: n<=5 / n<=6; 1-D and "
    "3-D analogues) x all fitness assignments over {0,1,2} and over {100, 100+1e-11, 100+3e-11} (every weak ordering incl. ties with the best and ties at the truncation cut; distinct values that agree to 11 digits) x "
    "(distance factor, truncation) in {(2,1), (1,0.5), (3,0.7), (1.5,0.34), (0,1), (0,0.7)} x both directions x scales {1, 1e-9 around 1.0 (tightly converged: "
    "distinct genomes whose printed form coincides)}; metamorphic re-runs (all n! input orders, translation by a lattice vector, scaling by 4 "
    "and 1/4, min/max mirroring) on the 3x3 cases; thorough adds 60-point clustered / collinear / grid populations in dimensions 1-8; each case "
    "is one call of the real NearestBetterClustering(...).cluster() compared with an independent O(n^2) reference; non-trivial = a case with "
    ">= 3 kept individuals in which the reference returns >= 2 seeds or a fitness tie is present"
)
ASSUMPTIONS = [
    "threshold comparisons within 1e-9 relative of the cut accept either answer (different summation order of the mean) - except when all nearest-better distances are whole numbers: sums are then exact and the strict '>' of the definition is decided exactly",
    "populations in which a fitness tie straddles the truncation cut, or with several best individuals, are only held to the order-independent clauses",
    "truncation keeping zero individuals is outside the statement ('the best one' does not exist)",
]
EXPLANATION = "states = distinct (population, fitness vector, direction, parameters) cases; transitions = applications of cluster()"
PARAMS = [(2.0, 1.0), (1.0, 0.5), (3.0, 0.7), (1.5, 0.34), (0.0, 1.0), (0.0, 0.7), (1.0, 1.0)]

_P = {}


def problem(maximize):
    from pyhms.core.problem import FunctionProblem

    if maximize not in _P:
        _P[maximize] = FunctionProblem(lambda x: 0.0, bounds=np.array([(-1e6, 1e6)] * 8), maximize=maximize)
    return _P[maximize]


def run_nbc(genomes, fits, maximize, factor, trunc, cloned=False):
    from pyhms.core.individual import Individual
    from pyhms.utils.clusterization import NearestBetterClustering

    if cloned:
        # a population a user assembled from Individual.clone() copies of one individual (distinct genomes all the same)
        base = Individual(np.array(genomes[0], dtype=float), problem(maximize), float(fits[0]))
        inds = [base]
        for g, f in zip(genomes[1:], fits[1:]):
            c = base.clone()
            c.genome = np.array(g, dtype=float)
            c.fitness = float(f)
            inds.append(c)
    else:
        inds = [Individual(np.array(g, dtype=float), problem(maximize), float(f)) for g, f in zip(genomes, fits)]
    nbc = NearestBetterClustering(inds, factor, trunc)
    out = nbc.cluster()
    idx = set()
    for o in out:
        k = next((i for i, x in enumerate(inds) if x is o), None)
        idx.add(k)
    return idx, sorted(float(v) for v in nbc.distances)


def check_case(res, genomes, fits, maximize, factor, trunc, tag, meta=False):
    st, sure, maybe, d = nbc_reference(genomes, fits, maximize, factor, trunc)
    res.executions += 1
    case = (tuple(map(tuple, genomes)), tuple(fits), maximize, factor, trunc)
    res.states.add(h64(case))
    rep = {"check": ID, "unit": {}, "desc": {"genomes": [list(map(float, g)) for g in genomes], "fits": list(map(float, fits)), "maximize": maximize,
                                               "factor": factor, "trunc": trunc, "tag": tag}, "dev": []}
    if st == "EMPTY":
        res.flags["skipped: truncation keeps nothing"] += 1
        return None
    try:
        got, dist = run_nbc(genomes, fits, maximize, factor, trunc)
    except Exception as e:
        res.add_violation(ID, f"C15/exception:{type(e).__name__}:{tag}", f"cluster() raised {type(e).__name__}: {e} on {rep['desc']}", {}, rep)
        return None
    if len(genomes) >= 3 and h64(case) % 8 == 0:
        try:
            got_c, dist_c = run_nbc(genomes, fits, maximize, factor, trunc, cloned=True)
        except Exception as e:
            got_c, dist_c = {"EXC:" + type(e).__name__}, None
        res.executions += 1
        res.flags["case repeated with a population built from clone() copies"] += 1
        if got_c != got:
            res.add_violation(ID, f"C15/clones-differ:{tag}", f"the same genomes and fitness values given as clone() copies of one individual give {sorted(map(str, got_c))}, "
                              f"as independent individuals {sorted(map(str, got))}: {rep['desc']}", {}, rep)
    res.transitions.add(h64((case, tuple(sorted(got, key=lambda v: -1 if v is None else v)))))
    res.outcomes.add(h64((len(got), st)))
    n = len(genomes)
    if None in got:
        res.add_violation(ID, f"C15/foreign-individual:{tag}", f"cluster() returned an individual that is not part of the input: {rep['desc']}", {}, rep)
        return None
    bestv = max(fits) if maximize else min(fits)
    if st == "TIE_AT_CUT":
        res.flags["tie straddling the truncation cut (weak clauses only)"] += 1
        if not any(fits[i] == bestv for i in got):
            res.add_violation(ID, f"C15/best-missing:{tag}", f"no best individual among the returned seeds: {rep['desc']} -> {sorted(got)}", {}, rep)
        return None
    m = int(n * trunc)
    nbest = sum(1 for f in fits if f == bestv)
    if m >= 3 and (len(sure) >= 2 or len(set(fits)) < n):
        res.nontrivial.add(h64(case))
    if maybe:
        res.flags["case with a distance inside the guard band"] += 1
    if d and factor > 0 and any(v == factor * float(np.mean(list(d.values()))) for v in d.values()) and not maybe:
        res.flags["case with a distance exactly on the cut (decided strictly)"] += 1
    ok = sure <= got <= (sure | maybe)
    if not ok and nbest > 1:
        # several best individuals: the statement does not say which of them is 'the best one';
        # accept the reference computed with any of them as root
        for r in [i for i in range(n) if fits[i] == bestv]:
            order = [r] + [i for i in range(n) if i != r]
            st2, s2, m2, _ = nbc_reference([genomes[i] for i in order], [fits[i] for i in order], maximize, factor, trunc)
            if st2 == "OK":
                s2 = {order[i] for i in s2}
                m2 = {order[i] for i in m2}
                if s2 <= got <= (s2 | m2):
                    ok = True
                    res.flags["several best individuals: matched with another root"] += 1
                    break
    if not ok:
        if not got:
            sig = f"C15/result-empty:{tag}"
        elif not any(fits[i] == bestv for i in got):
            sig = f"C15/best-missing:{tag}"
        else:
            sig = f"C15/result-differs:{tag}"
        res.add_violation(ID, sig, f"cluster() returned {sorted(got)}, definition gives {sorted(sure)} (+ undetermined {sorted(maybe)}): {rep['desc']}", {}, rep)
        return None
    if nbest == 1 or True:
        refd = sorted(d.values())
        if len(dist) != len(refd) or any(abs(a - b) > 1e-12 * max(1.0, abs(b)) for a, b in zip(dist, refd)):
            if nbest == 1:
                res.add_violation(ID, f"C15/distances-differ:{tag}", f".distances = {dist}, definition gives {refd}: {rep['desc']}", {}, rep)
                return None
    return got if (nbest == 1) else None


def metamorphic(res, genomes, fits, maximize, factor, trunc, got, tag):
    n = len(genomes)
    rep = {"check": ID, "unit": {}, "desc": {"genomes": [list(map(float, g)) for g in genomes], "fits": list(map(float, fits)), "maximize": maximize,
                                               "factor": factor, "trunc": trunc, "tag": tag}, "dev": []}

    def run(gs, fs, mx):
        res.executions += 1
        res.extra["metamorphic re-runs"] += 1
        try:
            return run_nbc(gs, fs, mx, factor, trunc)[0]
        except Exception as e:
            return {"EXC", type(e).__name__}

    for perm in itertools.permutations(range(n)):
        if perm == tuple(range(n)):
            continue
        g2 = run([genomes[i] for i in perm], [fits[i] for i in perm], maximize)
        back = {perm[i] for i in g2 if isinstance(i, int)} if "EXC" not in g2 else g2
        if back != got:
            res.add_violation(ID, f"C15/order-dependent:{tag}", f"input order {perm} gives {sorted(map(str, back))}, original order gives {sorted(got)}: {rep['desc']}", {"perm": list(perm)}, rep)
            break
    G = np.array(genomes, dtype=float)
    shift = np.arange(1, G.shape[1] + 1) * 3.0 - 5.0
    for name, G2 in (("translated", G + shift), ("scaled x4", G * 4.0), ("scaled x1/4", G * 0.25)):
        g2 = run([list(r) for r in G2], fits, maximize)
        if g2 != got:
            res.add_violation(ID, f"C15/not-invariant:{name}:{tag}", f"{name} genomes give {sorted(map(str, g2))}, original {sorted(got)}: {rep['desc']}", {}, rep)
    g2 = run(genomes, [-f for f in fits], not maximize)
    if g2 != got:
        res.add_violation(ID, f"C15/min-max-mirror:{tag}", f"mirrored formulation gives {sorted(map(str, g2))}, original {sorted(got)}: {rep['desc']}", {}, rep)


def lattice(dims):
    return list(itertools.product(*[range(k) for k in dims]))


def units(tier, seed):
    us = []
    q = tier == "quick"

    def add(dims, ns, scales, params, meta=False, chunk=40, close=False):
        pts = lattice(dims)
        for n in ns:
            sets = list(itertools.combinations(range(len(pts)), n))
            for i in range(0, len(sets), chunk):
                us.append({"kind": "lattice", "dims": dims, "sets": sets[i : i + chunk], "scales": scales, "params": params, "meta": meta, "close": close})

    add((4, 4), (2, 3) if q else (2, 3, 4, 5), [0, 1], list(range(4)), chunk=40 if q else 12)
    add((3, 3), (2, 3, 4), [0, 1], [4, 5], chunk=20)
    add((3, 3), (2, 3, 4), [0], [0, 1, 2], chunk=20, close=True)  # distinct fitness values that agree to 11 digits
    add((3, 3), (4, 5) if q else (4, 5, 6), [0, 1], [0, 2] if q else list(range(4)), chunk=6 if q else 2)
    add((3, 3), (2, 3, 4), [0], [0, 2], meta=True, chunk=8)
    add((6,), (2, 3, 4), [0, 1], list(range(4)), chunk=30)
    # points on a line at whole-number positions: nearest-better distances that EQUAL factor x mean exactly (not seeds: '>' is strict)
    add((8,), (3, 4, 5), [0], [0, 6], chunk=12)
    add((2, 2, 2), (2, 3, 4), [0, 1], list(range(4)), chunk=20)
    if not q:
        for k in range(48):
            us.append({"kind": "structured", "k": k, "seed": seed})
    for k in range(6 if q else 12):
        us.append({"kind": "structured", "k": k, "seed": seed, "n": (100, 150, 300)[k % 3]})
    return us


def run_unit(unit):
    res = Result()
    if unit["kind"] == "lattice":
        pts = lattice(unit["dims"])
        for si in unit["sets"]:
            base = [pts[i] for i in si]
            n = len(base)
            for sc in unit["scales"]:
                if sc == 0:
                    genomes = [tuple(float(c) for c in p) for p in base]
                    tag = "unit-scale"
                else:
                    genomes = [tuple(1.0 + 1e-9 * c for c in p) for p in base]
                    tag = "scale-1e-9"
                fit_alphabet = (0.0, 1.0, 2.0) if not unit.get("close") else (100.0, 100.0 + 1e-11, 100.0 + 3e-11)
                for fits in itertools.product(fit_alphabet, repeat=n):
                    for pi in unit["params"]:
                        factor, trunc = PARAMS[pi]
                        for mx in (False, True):
                            got = check_case(res, genomes, fits, mx, factor, trunc, tag)
                            if unit["meta"] and got is not None and not mx:
                                metamorphic(res, genomes, fits, mx, factor, trunc, got, tag)
            res.configs += 1
            res.configs_completed += 1
            if len(res.samples) < 1:
                res.samples.append({"genomes": genomes, "fits": list(fits), "maximize": mx, "factor": factor, "trunc": trunc})
    else:
        structured(res, unit["k"], unit["seed"], unit.get("n"))
    res.status["ok"] += res.executions
    res.by_bound[0] += res.executions
    return res


def structured(res, k, seed, big_n=None):
    """60-point populations: clustered / collinear / grid, dimensions 1-8, fitness with ties.
    big_n: populations of 100-300 points in dimension 8-20 (beyond the small scope: block-wise / threshold-switched code paths)."""
    rng = np.random.RandomState(1000 + k + 7919 * (seed % 1000))
    dim = 1 + k % 8
    kind = ("clustered", "collinear", "grid")[k % 3]
    n = (60, 40, 25, 12)[(k // 3) % 4]
    if big_n:
        n, dim = big_n, (8, 12, 20)[k % 3]
    if kind == "clustered":
        centres = rng.randint(-40, 40, size=(3, dim))
        G = np.array([centres[i % 3] + rng.randint(-3, 4, size=dim) for i in range(n * 2)], dtype=float)
    elif kind == "collinear":
        direction = rng.randint(1, 4, size=dim)
        G = np.array([direction * t for t in rng.permutation(200)[: n * 2]], dtype=float)
    else:
        G = np.array([rng.randint(0, 9, size=dim) for _ in range(n * 2)], dtype=float)
    # distinct genomes
    seen, rows = set(), []
    for r in G:
        key = r.tobytes()
        if key not in seen:
            seen.add(key)
            rows.append(r)
    G = np.array(rows[:n])
    base = np.sum((G - G.mean(axis=0)) ** 2, axis=1)
    for ties in ((False, True, 2) if big_n else (False, True)):
        # (ties == 2: three fitness levels only, i.e. tie groups of about n/3 individuals)
        fits = np.floor(base / (1 + base.max() / (2.5 if ties == 2 else 6))) if ties else base + 1e-3 * np.arange(len(G))
        for factor, trunc in PARAMS:
            for mx in (False, True):
                f = -fits if mx else fits
                check_case(res, [tuple(r) for r in G], [float(v) for v in f], mx, factor, trunc, f"structured-{kind}")
    res.configs += 1
    res.configs_completed += 1


def finish(res, tier):
    if len(res.nontrivial) < 5000:
        raise Vacuous("few non-trivial cases")
    if res.extra["metamorphic re-runs"] < 10000:
        raise Vacuous("few metamorphic re-runs")
    return {"exhaustive": True, "clusterings": res.executions, "metamorphic_reruns": res.extra["metamorphic re-runs"]}


def replay(rep):
    d = rep["desc"]
    res = Result()
    got = check_case(res, [tuple(g) for g in d["genomes"]], d["fits"], d["maximize"], d["factor"], d["trunc"], d["tag"])
    if got is not None:
        metamorphic(res, [tuple(g) for g in d["genomes"]], d["fits"], d["maximize"], d["factor"], d["trunc"], got, d["tag"])
    return res.violations
