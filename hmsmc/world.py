"""Worlds: finite alphabets (engines, objectives, boxes, sprout mechanisms, stop conditions),
pass-through probes around every user-supplied component, the recorder objective with
per-deme attribution from public counters, and the chooser that owns every decision.

A world is built from a JSON-able descriptor, so that every execution is replayable from
(descriptor, deviation list).
"""
from __future__ import annotations

import collections
import hashlib
import math

import numpy as np

from . import REPO  # noqa: F401  (sets sys.path)

from pyhms.config import (  # noqa: E402
    BaseLevelConfig,
    CMALevelConfig,
    DELevelConfig,
    EALevelConfig,
    LHSLevelConfig,
    LocalOptimizationConfig,
    SHADELevelConfig,
    SobolLevelConfig,
    TreeConfig,
)
from pyhms.core.individual import Individual  # noqa: E402
from pyhms.core.problem import EvalCutoffProblem, FunctionProblem, PrecisionCutoffProblem, ProblemWrapper  # noqa: E402
from pyhms.demes.abstract_deme import AbstractDeme  # noqa: E402
from pyhms.demes.single_pop_eas.sea import MWEA, SEA, GAStyleSEA, SEAWithAdaptiveMutation, SEAWithCrossover  # noqa: E402
from pyhms.sprout.sprout_candidates import DemeCandidates, DemeFeatures  # noqa: E402
from pyhms.sprout.sprout_filters import DemeLimit, FarEnough, LevelLimit, NBC_FarEnough, SkipSameSprout  # noqa: E402
from pyhms.sprout.sprout_generators import (  # noqa: E402
    BestPerDeme,
    NBC_Generator,
    NBCGeneratorWithLocalMethod,
    SproutCandidatesGenerator,
)
from pyhms.sprout.sprout_mechanisms import SproutMechanism, get_NBC_sprout, get_simple_sprout  # noqa: E402
from pyhms.stop_conditions import (  # noqa: E402
    AllChildrenStopped,
    AllStopped,
    DontRun,
    DontStop,
    FitnessEvalLimitReached,
    FitnessSteadiness,
    MetaepochLimit,
    NoActiveNonrootDemes,
    RootStopped,
    SingularProblemEvalLimitReached,
    SingularProblemPrecisionReached,
    WeightingStrategy,
)
from pyhms.tree import DemeTree  # noqa: E402

# --------------------------------------------------------------------------------------
# alphabets
# --------------------------------------------------------------------------------------

BOXES = {
    "B_sym": [(-5.0, 5.0), (-5.0, 5.0)],
    "B_asym": [(-3.0, 5.0), (1.0, 2.0)],
    "B_dec": [(-0.1, 0.2), (1000.1, 1000.4)],
    "B_3d": [(-1.0, 1.0), (-1.0, 1.0), (-1.0, 1.0)],
    "B_zero": [(0.0, 5.0), (-5.0, 0.0)],  # bounds that are exactly zero
    "B_6d": [(-2.0, 3.0)] * 6,
    # 'scale' worlds: larger dimensions, every dimension with its own bounds
    "B_12d": [(-5.0 + 0.5 * j, 5.0 + 1.5 * j) if j % 3 else (-0.1 * (j + 1), 0.2 * (j + 1)) for j in range(12)],
    "B_30d": [(-3.0 - 0.25 * j, 2.0 + 0.5 * j) for j in range(30)],
    # bounds for which lower + (upper - lower) is one ulp ABOVE upper in floating point (normalised-coordinate arithmetic overshoots)
    "B_ulp": [(-0.1, 0.3), (-1.3, 2.6)],
    "B_int": [(-20.0, 20.0), (-3.0, 7.0)],  # whole-number bounds: may be handed over as an integer array (desc int_bounds)
    "B_1d": [(-2.0, 6.0)],
    "B_5d": [(-1.0, 2.0), (0.5, 1.5), (-3.0, -1.0), (10.0, 12.0), (-0.5, 0.5)],
}

ROOTS = ["SEA", "SEAX", "GA", "SEAA", "MWEA", "DE", "DEd", "SHADE", "LHS", "SOB"]
NONROOT = ["CMAf", "CMAw", "CMAs", "LOC"]
ALL = ROOTS + NONROOT
# user-assembled engines (BaseSEA subclasses with their own operator pipeline, passed as ea_class): not part of ROOTS / ALL,
# used by the checks that name them
USER_EAS = ["UEAm", "UEA3", "UEAi"]
SEA_FAMILY = ["SEA", "SEAX", "GA", "SEAA", "MWEA"] + USER_EAS
POP_ENGINES = ["SEA", "SEAX", "GA", "SEAA", "MWEA", "DE", "DEd", "SHADE"] + USER_EAS
EXPECTED_CLASS = {
    "SEA": "EADeme",
    "SEAX": "EADeme",
    "GA": "EADeme",
    "SEAA": "EADeme",
    "MWEA": "EADeme",
    "DE": "DEDeme",
    "DEd": "DEDeme",
    "SHADE": "SHADEDeme",
    "CMAf": "CMADeme",
    "CMAw": "CMADeme",
    "CMAs": "CMADeme",
    "LOC": "LocalDeme",
    "LHS": "LHSDeme",
    "SOB": "SobolDeme",
    "UEAm": "EADeme",
    "UEA3": "EADeme",
    "UEAi": "EADeme",
    "STUB": "StubDeme",
    "STUBEA": "StubDeme2",
    "STUBX": "StubDeme3",
}
POP_SIZE = {e: 6 for e in POP_ENGINES}
POP_SIZE.update({"LHS": 5, "SOB": 4, "STUB": 3, "STUBEA": 3, "STUBX": 3})

_CENTER = np.array(([0.3, 0.6, 0.45, 0.55, 0.35, 0.65, 0.4, 0.5] * 5))  # first 8 entries as always; repeated up to dimension 40


def box_array(box) -> np.ndarray:
    if isinstance(box, str):
        box = BOXES[box]
    return np.array(box, dtype=float)


def make_objective(name: str, box: np.ndarray, maximize: bool, shift: float = 0.0):
    """Pure deterministic objective on the given box. maximize=True gives -f (so that
    (f, minimise) and (-f, maximise) are the two formulations of one problem)."""
    lo = box[:, 0].copy()
    rng = (box[:, 1] - box[:, 0]).copy()
    d = len(lo)
    c = _CENTER[:d]

    if name == "sphere_in":

        def f(x):
            u = (np.asarray(x, dtype=float) - lo) / rng
            return float(np.sum((u - c) ** 2)) + shift

    elif name == "lin_corner":
        sign = np.array([1.0 if j % 2 == 0 else -1.0 for j in range(d)])

        def f(x):
            u = (np.asarray(x, dtype=float) - lo) / rng
            return float(np.sum(sign * u)) + shift

    elif name == "twofunnel":
        a = np.full(d, 0.2)
        b = np.full(d, 0.8)

        def f(x):
            u = (np.asarray(x, dtype=float) - lo) / rng
            return float(min(np.sum((u - a) ** 2), np.sum((u - b) ** 2) + 0.05)) + shift

    elif name == "plateau":

        def f(x):
            u = (np.asarray(x, dtype=float) - lo) / rng
            return float(np.floor(3.0 * np.sum(np.abs(u - c)))) + shift

    elif name == "nanhole":
        # a deterministic objective that is undefined (NaN) on a slab of the box
        def f(x):
            u = (np.asarray(x, dtype=float) - lo) / rng
            if 0.42 <= u[0] <= 0.62:
                return float("nan")
            return float(np.sum((u - c) ** 2)) + shift

    elif name == "infhole":
        # a penalty objective: the worst possible value (+inf when minimising) on a slab of the box
        def f(x):
            u = (np.asarray(x, dtype=float) - lo) / rng
            if 0.42 <= u[0] <= 0.62:
                return float("inf")
            return float(np.sum((u - c) ** 2)) + shift

    elif name == "tiny_offset":
        # all values within 1e-12 relative of 7: every improvement is only a few ulps
        def f(x):
            u = (np.asarray(x, dtype=float) - lo) / rng
            return 7.0 + 1e-12 * float(np.sum((u - c) ** 2)) + shift

    elif name == "nanhalf":
        # undefined on half of the box (like sqrt of a coordinate that may be negative)
        def f(x):
            u = (np.asarray(x, dtype=float) - lo) / rng
            if u[0] < 0.5:
                return float("nan")
            return float(np.sum((u - c) ** 2)) + shift

    elif name == "const":

        def f(x):
            return 0.0 + shift

    elif name == "illcond":
        # ill-conditioned ellipsoid (condition 1e6), optimum inside: local searches need hundreds of iterations
        w = 10.0 ** (6.0 * np.arange(d) / max(d - 1, 1))

        def f(x):
            u = (np.asarray(x, dtype=float) - lo) / rng
            return float(np.sum(w * (u - c) ** 2)) + shift

    elif name == "goodinf":
        # -inf (when minimising) on a small disc: the best possible value, returned by the objective itself
        def f(x):
            u = (np.asarray(x, dtype=float) - lo) / rng
            if float(np.sum((u - c) ** 2)) < 0.01:
                return float("-inf")
            return float(np.sum((u - c) ** 2)) + shift

    elif name == "intpen":
        # a death penalty written as a Python int on a slab of the box, floats elsewhere (non-uniform return type)
        def f(x):
            u = (np.asarray(x, dtype=float) - lo) / rng
            if 0.42 <= u[0] <= 0.62:
                return 3 + int(shift)
            return float(np.sum((u - c) ** 2)) + shift

    else:
        raise KeyError(name)

    if maximize:

        def g(x):
            return -f(x)

        return g
    return f


OBJECTIVES = ["sphere_in", "lin_corner", "twofunnel", "plateau", "const"]


# --------------------------------------------------------------------------------------
# chooser
# --------------------------------------------------------------------------------------


class Chooser:
    """Owns every decision. Option 0 is the default environment answer."""

    def __init__(self, deviations=()):
        self.dev = {int(i): int(o) for i, o in deviations}
        self.points: list[tuple[str, str, int]] = []
        self.taken: list[int] = []

    def choose(self, kind: str, label, n_options: int) -> int:
        i = len(self.points)
        self.points.append((kind, str(label), int(n_options)))
        opt = self.dev.get(i, 0)
        if opt >= n_options:
            raise HarnessError(f"deviation {i}:{opt} out of range at point {(kind, label, n_options)}")
        self.taken.append(opt)
        return opt


class HarnessError(Exception):
    pass


# --------------------------------------------------------------------------------------
# recorder with per-deme attribution (public counters only)
# --------------------------------------------------------------------------------------


class CallLog:
    """All objective invocations of a world: (level, genome copy, value)."""

    def __init__(self):
        self.level: list[int] = []
        self.x: list[np.ndarray] = []
        self.v: list[float] = []
        self.owner: list[str | None] = []
        self.per_level = collections.Counter()
        self._tree_ref = None
        self._snap: dict[int, dict[str, int]] = {}
        self._pending: dict[int, list[int]] = collections.defaultdict(list)
        self.hooks = []

    def __len__(self):
        return len(self.v)

    # -- attribution -------------------------------------------------------------------
    def bind(self, tree_getter):
        self._tree_ref = tree_getter

    def _counters(self, level):
        tree = self._tree_ref() if self._tree_ref else None
        if tree is None:
            return {}
        try:
            levels = tree.levels
            if level >= len(levels):
                return {}
            return {d.id: d.n_evaluations for d in levels[level]}
        except Exception:
            return {}

    def settle(self, level):
        cur = self._counters(level)
        prev = self._snap.get(level, {})
        pend = self._pending[level]
        for i, n in cur.items():
            delta = n - prev.get(i, 0)
            if delta > 0 and pend:
                take = pend[-delta:] if delta <= len(pend) else pend[:]
                for c in take:
                    self.owner[c] = i
                del pend[len(pend) - len(take) :]
        self._snap[level] = cur

    def settle_all(self):
        for level in list(self._pending):
            self.settle(level)
        tree = self._tree_ref() if self._tree_ref else None
        if tree is not None:
            try:
                for level in range(len(tree.levels)):
                    if level not in self._pending:
                        self._snap[level] = self._counters(level)
            except Exception:
                pass

    def record(self, level, x, v):
        self.settle(level)
        self.level.append(level)
        self.x.append(np.array(x, dtype=float, copy=True))
        self.v.append(v)
        self.owner.append(None)
        self._pending[level].append(len(self.v) - 1)
        self.per_level[level] += 1
        for h in self.hooks:
            h(level, self.x[-1], v)


class Recorder:
    """The user objective of one level: pure function + call log. With array_memo=True it behaves like a memoising
    user objective that returns (and keeps) 0-d ndarray objects: whoever modifies a returned value in place corrupts
    the objective's own table and every individual holding that object."""

    def __init__(self, f, level, log: CallLog, array_memo=False):
        self.f = f
        self.level = level
        self.log = log
        self.table = {} if array_memo else None

    def __call__(self, x):
        v = self.f(x)
        self.log.record(self.level, x, v)
        if self.table is not None:
            k = np.asarray(x, dtype=float).tobytes()
            if k not in self.table:
                self.table[k] = np.array(v, dtype=float)
            return self.table[k]
        return v

    def __deepcopy__(self, memo):
        # pyhms deep-copies candidate individuals (and with them their problem) for its records:
        # the objective is shared, never copied
        return self


class CallableObjective:
    """Objective given as a callable object (C19: picklable without a lambda)."""

    def __init__(self, name, box, maximize):
        self.name, self.box, self.maximize = name, np.array(box), maximize
        self._f = None

    def __call__(self, x):
        if self._f is None:
            self._f = make_objective(self.name, self.box, self.maximize)
        return self._f(x)

    def __getstate__(self):
        return {"name": self.name, "box": self.box, "maximize": self.maximize, "_f": None}


class RequestProbe(ProblemWrapper):
    """Outermost user-side wrapper that counts evaluate *requests* of one level
    (needed only to know whether a cutoff wrapper below it has started refusing)."""

    def __init__(self, inner):
        super().__init__(inner)
        self.requests = 0

    def evaluate(self, phenome, *args, **kwargs):
        self.requests += 1
        return self._inner.evaluate(phenome, *args, **kwargs)


# --------------------------------------------------------------------------------------
# probes
# --------------------------------------------------------------------------------------


class Either:
    def __init__(self, a, b):
        self.a, self.b = a, b

    def __call__(self, t):
        return bool(self.a(t)) or bool(self.b(t))


def _cast_verdict(v, kind):
    """A user-written condition may answer with any truthy / falsy value; numpy comparisons answer numpy.bool_."""
    if kind == "npbool":
        return np.bool_(v)
    if kind == "int":
        return int(v)
    return v


class ProbeGSC:
    """Pass-through probe around the global stop condition. Choice kind G: 'the condition
    holds from this consult on' (sticky => models an arbitrary monotone user condition)."""

    def __init__(self, inner, world):
        self.inner = inner
        self.w = world
        self.forced = False
        self.n = 0
        self.first_true = None
        self.last_real = None

    def __call__(self, tree):
        if self.w.desc.get("observing_gsc"):
            # a user-defined condition may look at anything public, at every consult
            for _, d in tree.all_demes:
                d.history, d.current_population, d.best_individual, d.centroid, d.all_individuals
            tree.best_individual, tree.all_individuals, tree.n_evaluations
        real = bool(self.inner(tree))
        self.last_real = real
        if not self.forced and not real and "G" in self.w.choices:
            if self.w.ch.choose("G", self.n, 2) == 1:
                self.forced = True
        v = bool(real or self.forced)
        if v and self.first_true is None:
            self.first_true = self.n
        k = self.n
        self.n += 1
        self.w.emit("consult", tree, {"k": k, "verdict": v, "real": real})
        return _cast_verdict(v, self.w.desc.get("verdict_type"))

    def __str__(self):
        return f"ProbeGSC({self.inner})"


class ProbeLSC:
    """Pass-through probe around a local stop condition. Choice kind L: the opposite verdict
    (True where the real one says False)."""

    def __init__(self, inner, world, level):
        self.inner = inner
        self.w = world
        self.level = level

    def __call__(self, deme):
        real = bool(self.inner(deme))
        v = real
        if not real and "L" in self.w.choices:
            if self.w.ch.choose("L", deme.id, 2) == 1:
                v = True
        self.w.emit("lsc", None, {"deme": deme, "verdict": v, "real": real})
        return _cast_verdict(v, self.w.desc.get("verdict_type"))

    def __str__(self):
        return f"ProbeLSC({self.inner})"


class ScriptedGenerator(SproutCandidatesGenerator):
    """Choice kind S: exactly c candidates per active non-leaf deme, the c best individuals of
    the deme's current population (so candidates are always genuine members)."""

    def __init__(self, world, default=1, features=0.0):
        self.w = world
        self.default = default
        self.features = features

    def __call__(self, tree):
        out = {}
        counts = [self.default] + [c for c in (0, 1, 2, 3) if c != self.default]
        for level in tree.levels[:-1]:
            for d in level:
                if d.is_active:
                    opt = self.w.ch.choose("S", d.id, len(counts)) if "S" in self.w.choices else 0
                    c = counts[opt]
                    pop = list(d.current_population)
                    mx = self.w.maximize
                    order = sorted(range(len(pop)), key=lambda i: (-pop[i].fitness if mx else pop[i].fitness, i))
                    out[d] = DemeCandidates(
                        individuals=[pop[i] for i in order[:c]],
                        features=DemeFeatures(nbc_mean_distance=self.features),
                    )
        order = self.w.desc.get("gen_order")
        if order and len(out) > 1:
            # a user-written generator need not list the parents level by level: 'reverse' = deepest parents first,
            # 'interleave' = youngest deme first, then alternately from both ends
            keys = list(out)
            if order == "reverse":
                keys = keys[::-1]
            else:
                keys = [keys[-1 - i // 2] if i % 2 == 0 else keys[i // 2] for i in range(len(keys))]
            out = {k: out[k] for k in keys}
        return out


class ProbeSprout:
    """Pass-through probe around the sprout mechanism."""

    def __init__(self, inner, world):
        self._inner = inner
        self._w = world

    def get_seeds(self, tree):
        self._w.emit("round_begin", tree, {})
        r = self._inner.get_seeds(tree)
        self._w.emit("round_end", tree, {"seeds": r})
        return r

    def __getattr__(self, name):
        return getattr(self._inner, name)


# --------------------------------------------------------------------------------------
# user-defined deme class (documented extension point; C07)
# --------------------------------------------------------------------------------------


class StubLevelConfig(BaseLevelConfig):
    def __init__(self, problem, lsc, pop_size=3, step=0.01):
        super().__init__(problem, lsc)
        self.pop_size = pop_size
        self.step = step


class StubEAConfig(EALevelConfig):
    """A user config class DERIVED from a shipped one, registered for its own deme class."""

    def __init__(self, problem, lsc, pop_size=3, step=0.01):
        super().__init__(pop_size=pop_size, problem=problem, lsc=lsc, generations=1, step=step)


class StubDeme(AbstractDeme):
    """A tiny deterministic hill-walker: evaluates pop_size points around its seed (or the box
    centre for a root), then each metaepoch shifts the population towards the best."""

    def __init__(self, deme_init_args):
        super().__init__(deme_init_args)
        cfg = deme_init_args.config
        self._pop_size = cfg.pop_size
        lo, hi = self._bounds[:, 0], self._bounds[:, 1]
        self._step = cfg.step * (hi - lo)
        x0 = deme_init_args.sprout_seed.genome if deme_init_args.sprout_seed is not None else (lo + hi) / 2
        pop = []
        for k in range(self._pop_size):
            g = np.clip(np.array(x0, dtype=float) + (k - 1) * self._step, lo, hi)
            pop.append(Individual(g, problem=self._problem))
        Individual.evaluate_population(pop)
        self._history.append([pop])

    def run_metaepoch(self, tree):
        lo, hi = self._bounds[:, 0], self._bounds[:, 1]
        best = max(self.current_population)
        pop = []
        for k, ind in enumerate(self.current_population):
            g = np.clip(ind.genome + 0.5 * (best.genome - ind.genome) + (k - 1) * 0.25 * self._step, lo, hi)
            pop.append(Individual(g, problem=self._problem))
        Individual.evaluate_population(pop)
        self._centroid = None
        self._history.append([pop])
        if tree._gsc(tree) or self._lsc(self):
            self._active = False


class StubDeme2(StubDeme):
    pass


class StubDeme3(StubDeme):
    """Registered for StubLevelConfig by worlds that use the engine name STUBX (another tree of the
    same process may register StubDeme for the very same config class)."""


# --------------------------------------------------------------------------------------
# level / mechanism / condition construction
# --------------------------------------------------------------------------------------


class _Tripler:
    """lambda = 3 mu: every parent is taken three times (the mutation that follows makes them differ)."""

    def __call__(self, population):
        return population.merge(population.copy()).merge(population.copy())


class _Immigrants:
    """Replaces the last individual by a fresh uniform sample, evaluated through the problem the engine was created with."""

    def __init__(self, problem):
        self.problem = problem

    def __call__(self, population):
        new = population.copy()
        b = self.problem.bounds
        g = b[:, 0] + np.random.rand(len(b)) * (b[:, 1] - b[:, 0])
        new.genomes[-1] = g
        new.fitnesses[-1] = self.problem.evaluate(g)
        return new


def _user_ea_classes():
    from pyhms.demes.single_pop_eas.sea import BaseSEA, GaussianMutation, TournamentSelection

    def mk(name, pipeline):
        def create(cls, **kw):
            problem = kw.get("problem")
            return cls(variational_operators_pipeline=pipeline(problem, kw), k_elites=kw.get("k_elites", 1))

        return type(name, (BaseSEA,), {"create": classmethod(create)})

    def gm(problem, kw):
        return GaussianMutation(std=kw.get("mutation_std", 1.0), bounds=problem.bounds, probability=kw.get("p_mutation", 1.0))

    return {
        # evolutionary-programming style: no mating selection, every parent mutated once
        "UEAm": mk("MutationOnlyEA", lambda p, kw: [gm(p, kw)]),
        # (mu + 3 mu)
        "UEA3": mk("ThreeFoldEA", lambda p, kw: [_Tripler(), gm(p, kw)]),
        # tournament + mutation + one random immigrant per generation (its own evaluation through `problem`)
        "UEAi": mk("ImmigrantEA", lambda p, kw: [TournamentSelection(), gm(p, kw), _Immigrants(p)]),
    }


_USER_EA = {}


def _de_kw(desc):
    kw = {}
    if "de_crossover" in desc:
        kw["crossover"] = desc["de_crossover"]
    if "de_scaling" in desc:
        kw["scaling"] = desc["de_scaling"]
    return kw


def make_level(engine, problem, lsc, gens, box, desc):
    rng = box[:, 1] - box[:, 0]
    std = float(np.min(rng)) * desc.get("std_factor", 1.0 / 6.0)
    mstd = float(np.mean(rng)) * desc.get("mstd_factor", 0.25)
    pop = desc.get("pop", 6)
    if engine in SEA_FAMILY:
        if engine in USER_EAS:
            if not _USER_EA:
                _USER_EA.update(_user_ea_classes())
            cls = _USER_EA[engine]
        else:
            cls = {"SEA": SEA, "SEAX": SEAWithCrossover, "GA": GAStyleSEA, "SEAA": SEAWithAdaptiveMutation, "MWEA": MWEA}[engine]
        kw = dict(mutation_std=mstd, p_mutation=desc.get("pmut", 1.0), k_elites=desc.get("kelites", 1))
        if engine == "MWEA":
            kw.update(election_group_size=desc.get("mwea_group", 4), k_elites=2)
        if engine == "SEAA":
            kw.update(mutation_std_step=mstd * desc.get("seaa_step_factor", 0.125))
        return EALevelConfig(
            ea_class=cls, generations=gens, problem=problem, pop_size=pop, lsc=lsc, sample_std_dev=std, **kw
        )
    if engine == "DE":
        return DELevelConfig(pop_size=pop, problem=problem, lsc=lsc, generations=gens, sample_std_dev=std, **_de_kw(desc))
    if engine == "DEd":
        return DELevelConfig(pop_size=pop, problem=problem, lsc=lsc, generations=gens, dither=True, sample_std_dev=std, **_de_kw(desc))
    if engine == "SHADE":
        return SHADELevelConfig(
            pop_size=pop, problem=problem, lsc=lsc, generations=gens, memory_size=3, sample_std_dev=std
        )
    if engine == "CMAf":
        return CMALevelConfig(problem=problem, lsc=lsc, generations=gens, sigma0=float(np.min(rng)) / 5.0)
    if engine == "CMAw":
        return CMALevelConfig(problem=problem, lsc=lsc, generations=gens, sigma0=None)
    if engine == "CMAs":
        return CMALevelConfig(problem=problem, lsc=lsc, generations=gens, sigma0=None, set_stds=True)
    if engine == "LOC":
        # scipy accepts any capitalisation of the method name; desc["loc_method"] exercises that
        kw = {"method": desc["loc_method"]} if desc.get("loc_method") else {}
        return LocalOptimizationConfig(problem=problem, lsc=lsc, maxiter=desc.get("loc_maxiter", 5), **kw)
    if engine == "LHS":
        return LHSLevelConfig(problem=problem, lsc=lsc, pop_size=desc.get("lhs_pop", 5))
    if engine == "SOB":
        return SobolLevelConfig(problem=problem, lsc=lsc, pop_size=desc.get("lhs_pop", 4))
    if engine in ("STUB", "STUBX"):
        return StubLevelConfig(problem=problem, lsc=lsc)
    if engine == "STUBEA":
        return StubEAConfig(problem=problem, lsc=lsc)
    raise KeyError(engine)


def make_lsc(spec):
    if spec is None or spec == "dontstop":
        return DontStop()
    if spec == "dontrun":
        return DontRun()
    if spec == "allchildren":
        return AllChildrenStopped()
    if isinstance(spec, dict):
        k = spec["kind"]
        if k == "metaepoch":
            return MetaepochLimit(spec["m"])
        if k == "steadiness":
            return FitnessSteadiness(spec.get("dev", 0.001), spec.get("n", 2))
    raise KeyError(spec)


def make_filter(spec, world):
    k = spec["kind"]
    if spec.get("ord") == "inf":
        spec = dict(spec, ord=np.inf)
    if k == "demelimit":
        return DemeLimit(spec["limit"])
    if k == "levellimit":
        return LevelLimit(spec["limit"])
    if k == "skipsame":
        return SkipSameSprout()
    if k == "farenough":
        return FarEnough(spec["dist"], spec.get("ord", 2))
    if k == "nbcfar":
        return NBC_FarEnough(spec.get("factor", 2.0), spec.get("ord", 2), spec.get("only_active", False))
    raise KeyError(spec)


def make_sprout(spec, world, box):
    rng = box[:, 1] - box[:, 0]
    k = spec["kind"]
    L = spec.get("L", 2)
    if k == "simple":
        far = spec.get("far", 0.1 * float(np.min(rng)))
        return get_simple_sprout(far, level_limit=L)
    if k == "nbc":
        kw = {}
        for a, b in (("gen", "gen_dist_factor"), ("trunc", "trunc_factor"), ("fil", "fil_dist_factor")):
            if a in spec:
                kw[b] = spec[a]
        return get_NBC_sprout(level_limit=L, **kw)
    if k == "nbclocal":
        return SproutMechanism(
            NBCGeneratorWithLocalMethod(spec.get("gen", 3.0), spec.get("trunc", 0.7)),
            [NBC_FarEnough(spec.get("fil", 3.0), 2), DemeLimit(1)],
            [LevelLimit(L)],
        )
    if k == "scripted":
        deme_chain = [make_filter(f, world) for f in spec.get("deme_chain", [])]
        if spec.get("demelimit"):
            deme_chain.append(DemeLimit(spec["demelimit"]))
        tree_chain = [make_filter(f, world) for f in spec.get("tree_chain", [{"kind": "levellimit", "limit": L}])]
        return SproutMechanism(ScriptedGenerator(world, spec.get("default", 1)), deme_chain, tree_chain)
    if k == "composed":
        gen = spec.get("gen", {"kind": "nbc"})
        if gen["kind"] == "nbc":
            g = NBC_Generator(gen.get("factor", 3.0), gen.get("trunc", 0.7))
        elif gen["kind"] == "best":
            g = BestPerDeme()
        else:
            raise KeyError(gen)
        return SproutMechanism(
            g,
            [make_filter(f, world) for f in spec.get("deme_chain", [])],
            [make_filter(f, world) for f in spec.get("tree_chain", [])],
        )
    raise KeyError(spec)


def make_gsc(spec, world):
    k = spec["kind"] if isinstance(spec, dict) else spec
    if k == "horizon":
        return DontStopG()
    if k == "metaepoch":
        return MetaepochLimit(spec["n"])
    if k == "evals":
        return SingularProblemEvalLimitReached(spec["n"])
    if k == "fevals":
        wts = spec.get("weights", "equal")
        if wts == "equal":
            wts = WeightingStrategy.EQUAL
        elif wts == "root":
            wts = WeightingStrategy.ROOT
        elif wts == "none":
            wts = None
        return FitnessEvalLimitReached(spec["n"], wts)
    if k == "precision":
        return SingularProblemPrecisionReached(world.precision_problem)
    if k == "rootstopped":
        return RootStopped()
    if k == "allstopped":
        return AllStopped()
    if k == "noactive":
        return NoActiveNonrootDemes(spec.get("n", 1))
    if k == "dontrun":
        return DontRun()
    raise KeyError(spec)


class DontStopG:
    def __call__(self, tree):
        return False

    def __str__(self):
        return "Never"


# --------------------------------------------------------------------------------------
# the world
# --------------------------------------------------------------------------------------

REUSE = {}  # process-wide registry of component objects for worlds that ask for reuse_components


def reused(desc, kind, spec, factory):
    """The same stop-condition / mechanism OBJECT for every world of this process that asks for it
    (users keep module-level DEFAULT_GSC / DEFAULT_SPROUT_COND objects and build several trees from them)."""
    if not desc.get("reuse_components"):
        return factory()
    import json

    key = (kind, json.dumps(spec, sort_keys=True, default=str))
    if key not in REUSE:
        REUSE[key] = factory()
    return REUSE[key]


DEFAULTS = dict(
    gens=1,
    obj="twofunnel",
    maximize=False,
    box="B_asym",
    sprout={"kind": "simple", "L": 2},
    gsc={"kind": "horizon"},
    lsc=None,
    hib=False,
    seed=1,
    Mh=4,
    choices="",
    levelshift=False,
    cutoff=None,
    precision=None,
    drive="steps",
    hib_option="set",
)


_CMA_LISTENER = [None]


def _install_cma_probe():
    """Library seam (cma, not pyhms): before every tell() ask the strategy whether it has already terminated itself.
    stop() only reads the strategy's state, so the extra call does not perturb the run."""
    import cma

    cls = cma.CMAEvolutionStrategy
    if getattr(cls.tell, "_hmsmc", False):
        return
    orig = cls.tell

    def tell(self, *a, **k):
        w = _CMA_LISTENER[0]
        if w is not None and w.tree is not None:
            try:
                st = dict(self.stop())
            except Exception:
                st = {}
            if st:
                w.emit("cma_tell_after_stop", None, {"es": self, "stop": st})
        self._hmsmc_asked_not_told = False
        return orig(self, *a, **k)

    tell._hmsmc = True
    cls.tell = tell
    orig_ask = cls.ask

    def ask(self, *a, **k):
        # protocol of an ask-and-tell strategy: a population that was asked for is told back before the next one is asked for
        # (otherwise the next generation is drawn from the same distribution again, i.e. not bred from its predecessor)
        w = _CMA_LISTENER[0]
        if w is not None and w.tree is not None and getattr(self, "_hmsmc_asked_not_told", False):
            w.emit("cma_ask_without_tell", None, {"es": self})
        self._hmsmc_asked_not_told = True
        return orig_ask(self, *a, **k)

    cls.ask = ask


class World:
    def __init__(self, desc: dict, deviations=(), shim=None):
        if any(str(e).startswith("CMA") for e in desc.get("engines", ())):
            _install_cma_probe()
            _CMA_LISTENER[0] = self
        else:
            _CMA_LISTENER[0] = None
        d = dict(DEFAULTS)
        d.update(desc)
        self.desc = d
        self.engines = list(d["engines"])
        self.choices = d["choices"]
        self.maximize = bool(d["maximize"])
        self.box = box_array(d["box"])
        self.ch = Chooser(deviations)
        self.log = CallLog()
        self.monitors = []
        self.tree = None
        self.shim = shim
        if shim is not None:
            shim.attach(self)
        self.log.bind(lambda: self.tree)
        n = len(self.engines)
        gens = d["gens"] if isinstance(d["gens"], (list, tuple)) else [d["gens"]] * n
        lscs = d["lsc"] if d["lsc"] is not None else [None] * n
        self.pure = []
        self.request_probes = []
        self.cutoffs = []
        self.precision_problem = None
        self.lsc_probes = []
        levels = []
        shared = None
        for i, e in enumerate(self.engines):
            if d.get("shared_problem") and shared is not None:
                # the usual way of using pyhms: ONE problem object handed to every level
                self.pure.append(self.pure[0])
                self.cutoffs.append(None)
                self.request_probes.append(None)
                lp = ProbeLSC(make_lsc(lscs[i]), self, i)
                self.lsc_probes.append(lp)
                levels.append(make_level(e, shared, lp, gens[i], self.box, d))
                continue
            shift = float(i) if d["levelshift"] else 0.0
            if self.maximize:
                shift = -shift
            if d.get("callable_obj"):
                f = CallableObjective(d["obj"], self.box, self.maximize)
            else:
                f = make_objective(d["obj"], self.box, self.maximize, shift)
            self.pure.append(make_objective(d["obj"], self.box, self.maximize, shift))
            p = FunctionProblem(Recorder(f, i, self.log, array_memo=bool(d.get("array_memo"))), bounds=(self.box.astype(int) if d.get("int_bounds") else self.box.copy()), maximize=_cast_verdict(self.maximize, d.get("maximize_type")), **({"use_cache": True} if d.get("use_cache") else {}))
            if d.get("inner_wrap"):
                # another shipped wrapper between the objective's problem and the budget wrapper
                from pyhms.core.problem import EvalCountingProblem, StatsGatheringProblem

                p = {"stats": StatsGatheringProblem, "count": EvalCountingProblem}[d["inner_wrap"]](p)
            cut = None
            if d["cutoff"] is not None:
                c = d["cutoff"][i] if isinstance(d["cutoff"], (list, tuple)) else d["cutoff"]
                if c is not None:
                    cut = EvalCutoffProblem(p, c)
                    p = cut
            if d["precision"] is not None and i == 0:
                opt = d["precision"].get("opt", 0.0)
                p = PrecisionCutoffProblem(p, -opt if self.maximize else opt, d["precision"]["eps"])
                self.precision_problem = p
            self.cutoffs.append(cut)
            if d.get("request_probe", True) and not d.get("picklable"):
                rp = RequestProbe(p)
                self.request_probes.append(rp)
                p = rp
            else:
                self.request_probes.append(None)
            lp = ProbeLSC(reused(d, f"lsc{i}", lscs[i], lambda: make_lsc(lscs[i])), self, i)
            self.lsc_probes.append(lp)
            if d.get("shared_problem"):
                shared = p
            tag = d.get("reuse_levels")
            if tag:
                # a user who keeps the level-config objects and points them at another problem for the next tree
                key = ("level", tag, i, e)
                if key in REUSE:
                    cfg, lp = REUSE[key]
                    lp.w = self
                    lp.inner = make_lsc(lscs[i])
                    self.lsc_probes[-1] = lp
                    cfg.problem = p
                else:
                    cfg = make_level(e, p, lp, gens[i], self.box, d)
                    REUSE[key] = (cfg, lp)
                levels.append(cfg)
                continue
            levels.append(make_level(e, p, lp, gens[i], self.box, d))
        self.level_configs = levels
        if d["sprout"]["kind"] == "scripted":
            sm = make_sprout(d["sprout"], self, self.box)
        else:
            sm = reused(d, "sprout", [d["sprout"], d["box"]], lambda: make_sprout(d["sprout"], self, self.box))
        self.mechanism = sm
        self.L = d["sprout"].get("L", 2)
        if (d["gsc"]["kind"] if isinstance(d["gsc"], dict) else d["gsc"]) == "precision":
            real = make_gsc(d["gsc"], self)
        else:
            real = reused(d, "gsc", d["gsc"], lambda: make_gsc(d["gsc"], self))
        self.real_gsc = real
        self.gsc = ProbeGSC(Either(real, MetaepochLimit(d["Mh"])), self)
        opts = {"random_seed": d["seed"]}
        if d["hib_option"] == "set":
            opts["hibernation"] = bool(d["hib"])
        elif d["hib"]:
            opts["hibernation"] = True
        self.hib = bool(d["hib"])
        extra = {}
        if "STUBX" in self.engines:
            extra["config_class_to_deme_class"] = {StubLevelConfig: StubDeme3, StubEAConfig: StubDeme2}
        elif "STUB" in self.engines or "STUBEA" in self.engines:
            extra["config_class_to_deme_class"] = {StubLevelConfig: StubDeme, StubEAConfig: StubDeme2}
        self.config = TreeConfig(levels, self.gsc, ProbeSprout(sm, self), options=opts, **extra)
        self.constructing = True
        self.tree = DemeTree(self.config)
        self.constructing = False
        self.log.settle_all()

    # ----------------------------------------------------------------------------------
    def emit(self, kind, tree, info):
        if tree is None:
            tree = self.tree
        if tree is None:
            return
        self.log.settle_all()
        for m in self.monitors:
            m.on(kind, tree, info)

    def refused(self, level=None) -> bool:
        """Has a cutoff wrapper (of that level / any level) refused at least one request?"""
        rng = range(len(self.engines)) if level is None else [level]
        for i in rng:
            rp = self.request_probes[i]
            if self.cutoffs[i] is not None and rp is not None and rp.requests > self.forwarded(i):
                return True
        return False

    def forwarded(self, level) -> int:
        # cutoff wrappers may be shared between levels only if the same object is configured;
        # here every level owns its stack, so forwarded calls == recorder calls of that level
        return self.log.per_level[level]

    def horizon_hit(self) -> bool:
        return bool(self.tree.metaepoch_count >= self.desc["Mh"] and not self.gsc.forced and not self.real_gsc(self.tree))


# --------------------------------------------------------------------------------------
# census / digests / canonical state
# --------------------------------------------------------------------------------------

_UNOBS = object()


def hib_flag(d):
    return getattr(d, "_hibernating", _UNOBS)


def seed_of(d):
    return getattr(d, "_sprout_seed", _UNOBS)


def gen_bytes(gen) -> bytes:
    return b"".join(
        np.asarray(ind.genome, dtype=float).tobytes() + np.float64(ind.fitness).tobytes() for ind in gen
    )


def history_digest(d) -> str:
    h = hashlib.sha256()
    for gen in d.history:
        h.update(b"G")
        h.update(gen_bytes(gen))
    return h.hexdigest()[:16]


def census(tree, digests=False):
    out = {}
    for l, d in tree.all_demes:
        hb = hib_flag(d)
        rec = dict(
            level=l,
            active=bool(d.is_active),
            hib=(None if hb is _UNOBS else bool(hb)),
            me=d.metaepoch_count,
            nev=d.n_evaluations,
            ngen=len(d.history),
            started=d.started_at,
            typ=type(d).__name__,
        )
        if digests:
            rec["dig"] = history_digest(d)
        out[d.id] = rec
    return out


def parent_map(tree):
    pm = {}
    for _, p in tree.all_demes:
        for c in p.children:
            pm.setdefault(c.id, []).append(p.id)
    return pm


def canonical_state(tree, gsc_seen_true: bool):
    pm = parent_map(tree)
    items = []
    for l, d in tree.all_demes:
        hb = hib_flag(d)
        items.append(
            (
                d.id,
                l,
                type(d).__name__,
                d.started_at,
                bool(d.is_active),
                None if hb is _UNOBS else bool(hb),
                d.metaepoch_count,
                tuple(pm.get(d.id, ())),
            )
        )
    items.sort()
    return (tree.metaepoch_count, bool(gsc_seen_true), tuple(items))


def tree_digest(tree) -> str:
    """Digest of the complete observable tree (structure + every genome and fitness)."""
    h = hashlib.sha256()
    h.update(str(tree.metaepoch_count).encode())
    for l, d in tree.all_demes:
        hb = hib_flag(d)
        sd = seed_of(d)
        h.update(
            f"{l}|{d.id}|{type(d).__name__}|{d.started_at}|{d.is_active}|{None if hb is _UNOBS else hb}|"
            f"{d.n_evaluations}|{[c.id for c in d.children]}|{d.metaepoch_count}".encode()
        )
        if sd is not _UNOBS and sd is not None:
            h.update(np.asarray(sd.genome, dtype=float).tobytes())
            h.update(np.float64(sd.fitness).tobytes())
        for gen in d.history:
            h.update(b"G")
            h.update(gen_bytes(gen))
    return h.hexdigest()


def h64(obj) -> int:
    return int.from_bytes(hashlib.blake2b(repr(obj).encode(), digest_size=8).digest(), "big")


def in_box(x, box) -> bool:
    x = np.asarray(x, dtype=float)
    return bool(np.all(x >= box[:, 0]) and np.all(x <= box[:, 1]))  # NaN compares False => outside
