"""Property monitors for the RUN harness. Each monitor reads only public attributes (plus the
three private fields pyhms' own reporting code uses: _sprout_seed, _hibernating, _history)
and evaluates its oracle at every probe of every execution."""
from __future__ import annotations

import collections
import random
import re

import numpy as np

from .explorer import Monitor
from .world import EXPECTED_CLASS, POP_ENGINES, _UNOBS, census, gen_bytes, hib_flag, history_digest, in_box, parent_map, seed_of, tree_digest


def key_of(ind):
    return (np.asarray(ind.genome, dtype=float).tobytes(), float(ind.fitness))


def better(maximize):
    """Strictly better in the problem's direction; NaN (undefined objective) is worse than any number."""

    def btr(a, b):
        if a != a:
            return False
        if b != b:
            return True
        return a > b if maximize else a < b

    return btr


# ======================================================================================
# C03 - exact counts
# ======================================================================================


class C03Monitor(Monitor):
    def check(self, tree, where):
        x, w = self.x, self.x.w
        demes = [d for _, d in tree.all_demes]
        tot = tree.n_evaluations
        s = sum(d.n_evaluations for d in demes)
        x.extra_count("C03 count comparisons")
        if tot != s:
            x.violate("C03/tree-vs-demes", f"tree total {tot} != sum over demes {s} at {where}")
        if w.refused():
            x.flag("cutoff refusing (count clause suspended)")
        else:
            if tot != len(w.log):
                x.violate(
                    "C03/tree-vs-calls",
                    f"tree total {tot} != {len(w.log)} objective invocations at {where}",
                    per_deme={d.id: d.n_evaluations for d in demes},
                    engines=x.desc["engines"],
                )
            for lvl in range(len(tree.levels)):
                ls = sum(d.n_evaluations for d in tree.levels[lvl])
                if ls != w.log.per_level[lvl]:
                    x.violate(
                        f"C03/level-vs-calls:{x.desc['engines'][lvl]}",
                        f"level {lvl} reports {ls} evaluations, objective of that level was invoked {w.log.per_level[lvl]} times at {where}",
                    )
        for lvl, cut in enumerate(w.cutoffs):
            if cut is not None:
                c = x.desc["cutoff"][lvl] if isinstance(x.desc["cutoff"], (list, tuple)) else x.desc["cutoff"]
                if w.log.per_level[lvl] > c:
                    x.violate("C03/budget-exceeded", f"cutoff {c} on level {lvl}: objective invoked {w.log.per_level[lvl]} times")
                if cut.n_evaluations != w.log.per_level[lvl]:
                    x.violate(
                        "C03/cutoff-counter",
                        f"cutoff wrapper of level {lvl} reports {cut.n_evaluations} forwarded calls, objective saw {w.log.per_level[lvl]}",
                    )

    def on(self, kind, tree, info):
        if kind in ("consult", "lsc", "boundary", "end"):
            self.check(tree, kind)
            if kind == "consult":
                self.x.flag("consult checked")


# ======================================================================================
# C08 - level limit
# ======================================================================================


class C08Monitor(Monitor):
    def __init__(self, x):
        super().__init__(x)
        self.round = None

    def on(self, kind, tree, info):
        x = self.x
        L = x.w.L
        if kind in ("consult", "round_begin", "round_end", "boundary", "lsc"):
            for lvl in range(1, len(tree.levels)):
                a = sum(1 for d in tree.levels[lvl] if d.is_active)
                if a > L:
                    x.violate("C08/limit-exceeded", f"{a} active demes on level {lvl} > limit {L} at {kind}")
                if a == L:
                    x.flag("level full")
        if kind == "round_begin":
            self.round = {lvl: (len(tree.levels[lvl]), sum(1 for d in tree.levels[lvl] if d.is_active)) for lvl in range(len(tree.levels))}
        if kind == "round_end":
            n = sum(len(c.individuals) for c in info["seeds"].values())
            if n:
                x.flag("round returned seeds")
        if kind == "boundary" and self.round is not None:
            for lvl in range(1, len(tree.levels)):
                created = len(tree.levels[lvl]) - self.round[lvl][0]
                free = max(0, L - self.round[lvl][1])
                if created > free:
                    x.violate(
                        "C08/created-more-than-free",
                        f"round created {created} demes on level {lvl}, only {free} slots free (limit {L}, {self.round[lvl][1]} active)",
                    )
                if created and created == free:
                    x.flag("round filled the level exactly")
            self.round = None


# ======================================================================================
# C06 - lifecycle
# ======================================================================================


class C06Monitor(Monitor):
    def __init__(self, x):
        super().__init__(x)
        self.prev = None
        self.lsc_true = set()
        self.lsc_seen = set()
        self.gsc_true_at = None  # log length when the probe first answered True
        self.frozen = {}  # id -> (nev, ngen, digest, deme)
        self.seen_gsc_true = False

    def full(self, tree):
        c = census(tree, digests=True)
        for _, d in tree.all_demes:
            c[d.id]["obj"] = d
        return c

    def on(self, kind, tree, info):
        x = self.x
        if kind == "consult":
            if info["verdict"] and not self.seen_gsc_true:
                self.seen_gsc_true = True
                self.gsc_true_at = len(x.w.log)
            for i, (nev, ngen, dig, d) in self.frozen.items():
                if d.is_active:
                    x.violate("C06/reactivated", f"{type(d).__name__} {i} active again after it had stopped")
                if d.n_evaluations != nev or len(d.history) != ngen:
                    x.violate("C06/inactive-deme-changed", f"stopped {type(d).__name__} {i} evaluated / recorded a generation")
        elif kind == "cma_tell_after_stop":
            x.violate("C06/engine-driven-after-it-terminated-itself:CMADeme", f"CMA-ES was told / asked for another generation although it already reported stop {info['stop']}")
        elif kind == "lsc":
            self.lsc_seen.add(info["deme"].id)
            if info["verdict"]:
                self.lsc_true.add(info["deme"].id)
            self.lsc_reference(info["deme"], info["real"])
        elif kind == "step_begin":
            self.lsc_true = set()
            self.lsc_seen = set()
            self.nlog_step = len(x.w.log)
        elif kind == "boundary":
            cur = self.full(tree)
            if self.prev is not None:
                self.judge(tree, self.prev, cur)
            self.prev = cur

    def lsc_reference(self, d, real):
        """The shipped local condition's verdict by its documented meaning (public attributes only)."""
        x = self.x
        specs = x.desc.get("lsc")
        spec = specs[d.level] if specs else None
        ref = None
        kind = spec if isinstance(spec, str) else (spec or {}).get("kind", "dontstop") if spec is not None else "dontstop"
        if kind == "dontstop":
            ref = False
        elif kind == "dontrun":
            ref = True
        elif kind == "metaepoch":
            ref = d.metaepoch_count >= spec["m"]
        elif kind == "allchildren":
            ref = bool(d.children) and all(not c.is_active for c in d.children)
        elif kind == "steadiness":
            n = spec.get("n", 2)
            if n > d.metaepoch_count:
                ref = False
            else:
                # mean fitness of each of the last n metaepochs (all generations of a metaepoch pooled)
                hist = getattr(d, "_history", None)
                if hist is not None:
                    avgs = [float(np.mean([i.fitness for g in hist[k] for i in g])) for k in range(-n, 0)]
                    ref = (float(np.mean(avgs)) - float(np.min(avgs))) <= spec.get("dev", 0.001)
        if ref is None:
            return
        x.extra_count("C06 shipped local-condition verdicts compared")
        if ref:
            x.flag("shipped local condition true")
        if bool(real) != bool(ref):
            x.violate(
                f"C06/shipped-lsc-verdict:{kind}",
                f"local stop condition {kind} of {type(d).__name__} {d.id} answers {real}, by its documented meaning it should answer {ref} "
                f"(own metaepochs {d.metaepoch_count}, children active {[c.is_active for c in d.children]})",
            )

    def judge(self, tree, prev, cur):
        x = self.x
        hib_on = x.w.hib
        owners = x.w.log.owner
        for i, v in cur.items():
            p = prev.get(i)
            typ = v["typ"]
            if p is None:
                if v["started"] != tree.metaepoch_count:
                    x.violate("C06/fresh-started-at", f"{typ} {i} first seen after metaepoch {tree.metaepoch_count} has started_at={v['started']}")
                if v["me"] != 0:
                    x.violate("C06/fresh-already-ran", f"freshly sprouted {typ} {i} has already run {v['me']} metaepochs")
                x.flag("fresh deme observed")
                continue
            awake = not (hib_on and p["hib"])
            if p["active"] and awake:
                if v["me"] != p["me"] + 1:
                    x.violate(
                        f"C06/not-exactly-one-metaepoch:{typ}",
                        f"active {typ} {i} advanced by {v['me'] - p['me']} metaepochs in one step",
                    )
                if p["me"] == 0 and i != "root":
                    x.flag("fresh deme ran its first metaepoch in the following step")
            else:
                if v["me"] != p["me"] or v["nev"] != p["nev"] or v["dig"] != p["dig"]:
                    sig = "C06/inactive-deme-changed" if not p["active"] else "C06/sleeping-deme-changed"
                    x.violate(sig, f"{'stopped' if not p['active'] else 'hibernating'} {typ} {i} changed during a step")
            if not p["active"] and v["active"]:
                x.violate("C06/reactivated", f"{typ} {i} active again after it had stopped")
            d = v["obj"]
            if p["active"] and not v["active"]:
                cause = []
                if i in self.lsc_true:
                    cause.append("lsc")
                if self.seen_gsc_true:
                    cause.append("gsc")
                if typ == "LocalDeme":
                    cause.append("one-shot")
                if typ == "CMADeme":
                    try:
                        if d._cma_es.stop():
                            cause.append("cma-stop")
                    except Exception:
                        cause.append("cma-unreadable")
                if not cause:
                    x.violate(f"C06/deactivated-without-cause:{typ}", f"{typ} {i} became inactive although neither its local condition nor the global condition held")
                else:
                    x.flag("deactivation by " + cause[0])
                self.frozen[i] = (v["nev"], v["ngen"], v["dig"], d)
            if p["active"] and v["active"] and awake:
                if i in self.lsc_true:
                    x.violate(f"C06/lsc-true-still-active:{typ}", f"local stop condition returned True for {typ} {i} but it is still active")
                specs = x.desc.get("lsc")
                if specs and specs[v["level"]] == "allchildren" and i in self.lsc_seen:
                    # 'holds at the end of its metaepoch' for a condition that reads the children: the children's metaepoch is over as
                    # well by then (demes are stepped deepest level first), so the verdict is the one of the boundary state
                    kids = [c.id for c in d.children if c.id in prev]
                    if kids and all(not cur[c]["active"] for c in kids):
                        x.violate("C06/all-children-stopped-still-active", f"{typ} {i} ran this metaepoch, every child it had ({kids}) is stopped at the end of the metaepoch, "
                                  "AllChildrenStopped is its local condition, and it is still active")
                    else:
                        x.flag("AllChildrenStopped parent judged at the boundary")
                if typ == "LocalDeme":
                    x.violate("C06/local-not-one-shot", f"LocalDeme {i} still active after its search")
                if typ == "CMADeme":
                    try:
                        st = d._cma_es.stop()
                    except Exception:
                        st = None
                    if st:
                        x.violate("C06/cma-stopped-still-active", f"CMA-ES of {i} reports stop {dict(st)} but the deme is still active")
                # global condition observed true during / before this deme's run in this step
                if self.gsc_true_at is not None and typ != "LocalDeme":
                    ran_after = any(
                        owners[c] == i for c in range(max(self.gsc_true_at, self.nlog_step), len(owners))
                    )
                    if ran_after:
                        x.violate(f"C06/gsc-true-still-active:{typ}", f"{typ} {i} evaluated after the global condition held and is still active")
        for i in prev:
            if i not in cur:
                x.violate("C06/deme-vanished", f"deme {i} disappeared")

    def end(self, tree):
        for i, (nev, ngen, dig, d) in self.frozen.items():
            if history_digest(d) != dig or d.n_evaluations != nev:
                self.x.violate("C06/inactive-deme-changed", f"stopped deme {i} changed after it had stopped")


# ======================================================================================
# C07 - structure and seed provenance
# ======================================================================================


class C07Monitor(Monitor):
    def __init__(self, x):
        super().__init__(x)
        self.known = set()
        self.round = None

    def on(self, kind, tree, info):
        x = self.x
        if kind == "round_begin":
            pops = {}
            hist = {}
            for _, d in tree.all_demes:
                pops[d.id] = {key_of(i) for i in d.current_population}
                if x.desc["sprout"]["kind"] == "nbclocal":
                    hist[d.id] = {key_of(i) for i in d.all_individuals}
            self.round = {"pops": pops, "hist": hist, "seeds": None}
        elif kind == "round_end":
            r = self.round
            r["seeds"] = {}
            for d, c in info["seeds"].items():
                ks = [key_of(i) for i in c.individuals]
                r["seeds"][d.id] = ks
                for k in ks:
                    ok = k in r["pops"].get(d.id, ())
                    if not ok and r["hist"]:
                        ok = (not d.is_active) and k in r["hist"].get(d.id, ())
                    if not ok:
                        x.violate("C07/seed-not-from-parent-population", f"a seed returned for parent {d.id} is not an individual of its population at that instant")
                    else:
                        x.flag("seed provenance checked")
        elif kind == "boundary":
            self.structure(tree)
            self.children(tree)
            self.local_start(tree)
            self.known = {d.id for _, d in tree.all_demes}
            self.round = None

    def local_start(self, tree):
        """A local-search deme is sprouted AT its seed: the first point its search evaluates is the seed's genome (ground truth: the
        recorder's call log, attributed through the public counters)."""
        x = self.x
        log = x.w.log
        done = getattr(self, "_local_done", None)
        if done is None:
            done = self._local_done = set()
        for _, d in tree.all_demes:
            if type(d).__name__ != "LocalDeme" or d.id in done or d.n_evaluations == 0:
                continue
            done.add(d.id)
            sd = seed_of(d)
            if sd is _UNOBS or sd is None:
                continue
            first = next((t for t, o in enumerate(log.owner) if o == d.id), None)
            if first is None:
                continue
            x.flag("first point of a local search compared with its seed")
            if np.asarray(log.x[first], dtype=float).tobytes() != np.asarray(sd.genome, dtype=float).tobytes():
                x.violate("C07/local-search-not-started-at-its-seed", f"LocalDeme {d.id}: the first point its search evaluated is {np.asarray(log.x[first]).tolist()}, "
                          f"its sprout seed is {np.asarray(sd.genome).tolist()}")

    def structure(self, tree):
        x = self.x
        engines = x.desc["engines"]
        levels = tree.levels
        if len(levels) != len(engines):
            x.violate("C07/height", f"{len(levels)} levels for {len(engines)} configured")
            return
        if len(levels[0]) != 1:
            x.violate("C07/root-count", f"{len(levels[0])} demes on level 0")
        root = tree.root
        if root.id != "root" or root.level != 0:
            x.violate("C07/root-id", f"root has id={root.id!r} level={root.level}")
        all_demes = [d for _, d in tree.all_demes]
        ids = [d.id for d in all_demes]
        if len(set(ids)) != len(ids):
            dup = [i for i, c in collections.Counter(ids).items() if c > 1]
            x.violate("C07/duplicate-id", f"duplicate deme ids {dup}")
        listed = collections.defaultdict(list)
        for p in all_demes:
            for c in p.children:
                listed[id(c)].append(p)
        in_levels = {id(d) for d in all_demes}
        for p in all_demes:
            for c in p.children:
                if id(c) not in in_levels:
                    x.violate("C07/child-not-in-levels", f"child {c.id} of {p.id} is not registered on any level")
        for l, d in tree.all_demes:
            if d.level != l:
                x.violate("C07/level-attr", f"deme {d.id} on level {l} reports level {d.level}")
            exp = EXPECTED_CLASS[engines[l]]
            if type(d).__name__ != exp:
                x.violate("C07/engine-class", f"deme {d.id} on level {l} is a {type(d).__name__}, configured engine needs {exp}")
            if not (0 <= d.started_at <= tree.metaepoch_count):
                x.violate("C07/started-at-range", f"deme {d.id} started_at={d.started_at} at metaepoch {tree.metaepoch_count}")
            if l == len(levels) - 1 and d.children:
                x.violate("C07/below-last-level", f"leaf deme {d.id} has children")
            if l == 0:
                if listed.get(id(d)):
                    x.violate("C07/root-has-parent", "root is listed as a child")
                continue
            ps = listed.get(id(d), [])
            if len(ps) != 1:
                x.violate("C07/parent-count", f"deme {d.id} is listed as a child by {len(ps)} demes")
                continue
            p = ps[0]
            if p.level != l - 1:
                x.violate("C07/parent-level", f"deme {d.id} (level {l}) has its parent on level {p.level}")
            if d.started_at < p.started_at:
                x.violate("C07/started-before-parent", f"deme {d.id} started at {d.started_at}, its parent {p.id} at {p.started_at}")
            if p.children.count(d) != 1:
                x.violate("C07/listed-twice", f"deme {d.id} listed {p.children.count(d)} times by its parent")
        x.flag("structure checked")

    def children(self, tree):
        x = self.x
        engines = x.desc["engines"]
        r = self.round
        for _, p in tree.all_demes:
            for c in p.children:
                if c.id in self.known:
                    continue
                x.flag("new child observed")
                sd = seed_of(c)
                if sd is _UNOBS:
                    x.note("sprout seed unobservable")
                    continue
                if sd is None:
                    x.violate("C07/child-without-seed", f"non-root deme {c.id} has no sprout seed")
                    continue
                if not in_box(sd.genome, x.w.box):
                    x.note("seed outside the box (C01)")
                if r is None or r.get("seeds") is None:
                    x.violate("C07/child-without-round", f"deme {c.id} appeared although no sprouting round ran")
                    continue
                k = key_of(sd)
                if k not in r["seeds"].get(p.id, []):
                    x.violate(
                        "C07/seed-not-returned-for-parent",
                        f"child {c.id} of {p.id} carries a seed that the sprout mechanism did not return for that parent",
                    )
                eng = engines[c.level] if c.level < len(engines) else None
                if eng in POP_ENGINES and c.history:
                    g0 = {np.asarray(i.genome, dtype=float).tobytes() for i in c.history[0]}
                    if k[0] not in g0:
                        x.violate(f"C07/seed-not-in-initial-population:{type(c).__name__}", f"initial population of {c.id} does not contain its sprout seed")
                    else:
                        x.flag("seed found in initial population")
                        g = np.asarray(sd.genome, dtype=float)
                        if np.any(g == x.w.box[:, 0]) or np.any(g == x.w.box[:, 1]):
                            x.flag("seed exactly on a face of the box found in initial population")


# ======================================================================================
# C18 - hibernation
# ======================================================================================


class C18Monitor(Monitor):
    def __init__(self, x):
        super().__init__(x)
        self.prev = None
        self.expected = {}
        self.round = None
        self.nlog = 0
        self.any_active = False
        self.all_asleep = False
        self.all_collapsed_de = False
        self.not_woken = set()
        self.not_woken_prev = set()

    def on(self, kind, tree, info):
        x = self.x
        if kind == "round_begin":
            nl = len(tree.levels)
            self.round = {"P": {d.id for l, d in tree.all_demes if d.is_active and l < nl - 1}, "S": None}
            import random as _random

            self.rng_at_round_begin = (np.random.get_state(), _random.getstate())
        elif kind == "round_end":
            self.round["S"] = {d.id for d, c in info["seeds"].items() if c.individuals}
            self.not_woken = set()
            spec = x.desc.get("sprout") or {}
            if x.w.hib and spec.get("kind") in ("simple", "nbc", "nbclocal", "composed"):
                # the same round played by a FRESH mechanism of the same configuration (new generator / filter objects, nothing
                # remembered from earlier rounds): which sleeping demes would it wake?
                import random as _random

                from .world import make_sprout

                st = (np.random.get_state(), _random.getstate())
                try:
                    # (same generator states as the real round started from: comparisons among NaN-fitness individuals draw from `random`)
                    np.random.set_state(self.rng_at_round_begin[0])
                    _random.setstate(self.rng_at_round_begin[1])
                    fs = make_sprout(spec, x.w, x.w.box).get_seeds(tree)
                    self.not_woken = {p.id for p, c in fs.items() if c.individuals and hib_flag(p) is True and p.id not in self.round["S"]}
                    x.flag("round replayed with a fresh mechanism")
                except Exception as e:
                    x.note(f"fresh mechanism raised {type(e).__name__}")
                finally:
                    np.random.set_state(st[0])
                    _random.setstate(st[1])
        elif kind == "step_begin":
            self.nlog = len(x.w.log)
            c = census(tree)
            self.any_active = any(v["active"] for v in c.values())
            act = [v for v in c.values() if v["active"]]
            self.all_asleep = bool(act) and all(v["hib"] for v in act)
            self.not_woken_prev = set(self.not_woken)
            # differential-evolution demes whose members are all the same point (difference vectors are all zero)
            running = [d for _, d in tree.all_demes if d.is_active and not (x.w.hib and hib_flag(d) is True)]
            self.all_collapsed_de = bool(running) and all(
                type(d).__name__ in ("DEDeme", "SHADEDeme") and len({np.asarray(i.genome, dtype=float).tobytes() for i in d.current_population}) == 1 for d in running
            )
            self.round = None
        elif kind == "boundary":
            cur = census(tree, digests=True)
            if self.prev is not None:
                self.judge(tree, self.prev, cur)
            self.prev = cur

    def judge(self, tree, prev, cur):
        x = self.x
        hib_on = x.w.hib
        nl = len(tree.levels)
        if any(v["hib"] is None for v in cur.values()):
            x.note("hibernation flag unobservable")
            return
        # progress
        if self.any_active and len(x.w.log) == self.nlog:
            if hib_on and self.all_asleep and self.not_woken_prev:
                x.violate(
                    "C18/stall:sleeping-deme-not-woken-although-a-fresh-mechanism-of-the-same-configuration-sprouts-from-it",
                    f"a metaepoch passed without any objective evaluation: every active deme was hibernating, and in the last round the mechanism took no sprout "
                    f"from {sorted(self.not_woken_prev)} although a new mechanism object built from the same configuration does (the mechanism remembers something)",
                )
            elif hib_on and self.all_asleep:
                x.violate(
                    "C18/stall:hibernation-on-all-active-demes-hibernating",
                    "a metaepoch passed without any objective evaluation: every active deme was hibernating at its start",
                )
            elif self.all_collapsed_de:
                x.violate(
                    "C18/stall:every-running-deme-is-a-differential-evolution-deme-with-identical-members",
                    "a metaepoch passed without any objective evaluation: every running deme was a DE / SHADE deme whose population had collapsed to one point",
                )
            else:
                x.violate("C18/stall:other", "a metaepoch passed without any objective evaluation while a deme was active and awake")
        elif self.any_active:
            x.flag("progress checked")
        r = self.round
        if not hib_on:
            for i, v in cur.items():
                if v["hib"]:
                    x.violate("C18/hibernating-with-option-off", f"deme {i} hibernating although hibernation is disabled")
            return
        if r is not None and r["S"] is not None:
            for i in r["P"]:
                self.expected[i] = i not in r["S"]
            x.flag("round with hibernation on")
        for i, v in cur.items():
            p = prev.get(i)
            if p is None:
                if v["hib"]:
                    x.violate("C18/fresh-deme-asleep", f"deme {i} created by this round is already hibernating (it never ran)")
                else:
                    x.flag("fresh deme awake")
                continue
            if v["active"] and v["level"] < nl - 1:
                exp = self.expected.get(i, False)
                if v["hib"] != exp:
                    if i not in self.expected:
                        x.violate("C18/fresh-deme-asleep", f"deme {i} has not taken part in any round yet but is hibernating")
                    else:
                        x.violate(
                            "C18/flag-mismatch",
                            f"active non-leaf deme {i}: hibernating={v['hib']}, but the last round it took part in "
                            f"{'took no sprout from it' if exp else 'sprouted from it'}",
                        )
                else:
                    x.flag("flag asleep ok" if exp else "flag awake ok")
            if p["active"] and p["hib"]:
                if v["nev"] != p["nev"] or v["dig"] != p["dig"] or v["me"] != p["me"]:
                    x.violate("C18/sleeper-changed", f"hibernating deme {i} evaluated / changed its history during a step")
                else:
                    x.flag("sleeper frozen")
                if not v["hib"]:
                    x.flag("deme woken by a round")


# ======================================================================================
# C02 - true fitness, immutable history ; C04 - best ; C20 - reports (boundary monitors)
# ======================================================================================


class C02Monitor(Monitor):
    def __init__(self, x):
        super().__init__(x)
        self.digests = {}

    def check_ind(self, ind, level, where, typ):
        x, w = self.x, self.x.w
        fit = ind.fitness
        g = np.asarray(ind.genome, dtype=float)
        x.extra_count("C02 individuals re-evaluated")
        if fit is not None and fit != fit:
            # NaN is a legitimate objective value where the objective is undefined; it must then be the value of THIS genome
            tv = w.pure[level](g)
            if tv != tv:
                x.flag("NaN-valued individual checked")
                return
            x.violate(f"C02/unevaluated:{typ}", f"{where}: fitness NaN although the objective is defined there ({tv!r})")
            return
        if fit is None:
            x.violate(f"C02/unevaluated:{typ}", f"{where}: individual without fitness")
            return
        if np.isinf(fit) and str(x.desc.get("obj", "")).startswith("nan"):
            tv = w.pure[level](g)
            if tv != tv:
                x.violate(f"C02/nan-turned-inf:{typ}", f"{where}: stored fitness {fit} for a genome at which the objective is undefined (NaN)")
                return
        if np.isinf(fit):
            ok_sign = (fit < 0) if w.maximize else (fit > 0)
            if ok_sign and w.refused(level):
                x.flag("sentinel accepted")
                return
            if ok_sign and w.cutoffs[level] is not None and w.desc.get("request_probe") is False:
                return
            x.violate(f"C02/sentinel:{typ}", f"{where}: fitness {fit} although no evaluation was refused on level {level}")
            return
        true = w.pure[level](g)
        if true != fit:
            x.violate(
                f"C02/fitness-mismatch:{typ}",
                f"{where}: stored fitness {fit!r} != objective value {true!r} of the stored genome",
                genome=g.tolist(),
            )

    def on(self, kind, tree, info):
        x = self.x
        if kind == "round_end":
            origin = {}
            for l, d in tree.all_demes:
                for gen in d.history:
                    for ind in gen:
                        origin.setdefault(id(ind), l)
            for d, c in info["seeds"].items():
                for ind in c.individuals:
                    self.check_ind(ind, origin.get(id(ind), d.level), f"seed returned for {d.id}", type(d).__name__ + "-returned-seed")
        if kind not in ("boundary", "end"):
            return
        # an individual is judged by the objective of the level that created it: the shallowest level whose
        # histories contain the object (a LocalDeme records its parent's seed individual as generation 0)
        origin = {}
        for l, d in tree.all_demes:
            for gen in d.history:
                for ind in gen:
                    if id(ind) not in origin:
                        origin[id(ind)] = l
        for l, d in tree.all_demes:
            typ = type(d).__name__
            hist = d.history
            for gi, gen in enumerate(hist):
                kk = (d.id, gi)
                dig = gen_bytes(gen)
                if kk in self.digests:
                    if self.digests[kk] != dig:
                        x.violate(f"C02/history-mutated:{typ}", f"generation {gi} of {typ} {d.id} changed after it was recorded")
                    continue
                self.digests[kk] = dig
                for ind in gen:
                    self.check_ind(ind, origin.get(id(ind), l), f"{typ} {d.id} generation {gi}", typ)
            for nm in ("best_individual", "best_current_individual"):
                ind = getattr(d, nm)
                if ind is not None:
                    self.check_ind(ind, origin.get(id(ind), l), f"{typ} {d.id}.{nm}", typ)
            sd = seed_of(d)
            if sd is not _UNOBS and sd is not None and l >= 1:
                self.check_ind(sd, origin.get(id(sd), l - 1), f"sprout seed of {d.id}", typ + "-seed")
        bi = tree.best_individual
        lvl = origin.get(id(bi))
        if lvl is not None:
            self.check_ind(bi, lvl, "tree.best_individual", "tree")
        x.flag("boundary checked")


class C04Monitor(Monitor):
    def __init__(self, x):
        super().__init__(x)
        self.seq = []
        self.deme_seq = collections.defaultdict(list)

    def on(self, kind, tree, info):
        # an 'unattended' world is a plain tree.run(): nobody reads any reporting accessor before the run is over
        if kind != ("end" if self.x.desc.get("unattended") else "boundary"):
            return
        x, w = self.x, self.x.w
        mx = w.maximize
        btr = better(mx)
        allinds = []
        has_loc = False
        if kind == "end":
            x.flag("unattended run judged at its end")
        for l, d in tree.all_demes:
            inds = d.all_individuals
            allinds.extend(inds)
            typ = type(d).__name__
            has_loc = has_loc or typ == "LocalDeme"
            b = d.best_individual
            if not inds:
                if b is not None:
                    x.violate(f"C04/deme-best-from-nowhere:{typ}", f"{typ} {d.id} has no individuals but reports a best")
                continue
            if b is None or not any(b is i for i in inds):
                x.violate(f"C04/deme-best-not-in-history:{typ}", f"best individual of {typ} {d.id} is not an element of its history")
                continue
            worse = [i for i in inds if btr(i.fitness, b.fitness)]
            if worse:
                x.violate(
                    f"C04/deme-best-not-best:{typ}",
                    f"{typ} {d.id} reports best fitness {b.fitness}, its history contains {worse[0].fitness}",
                )
            s = self.deme_seq[d.id]
            if s and btr(s[-1], b.fitness):
                x.violate(f"C04/deme-best-got-worse:{typ}", f"best of {typ} {d.id} went from {s[-1]} to {b.fitness}")
            s.append(b.fitness)
        bi = tree.best_individual
        if not any(bi is i for i in allinds):
            x.violate("C04/tree-best-not-in-histories", "tree.best_individual is not an element of any deme's history")
        worse = [i for i in allinds if btr(i.fitness, bi.fitness)]
        if worse:
            x.violate("C04/tree-best-not-best", f"tree reports best fitness {bi.fitness}, a history contains {worse[0].fitness}")
        if self.seq and btr(self.seq[-1], bi.fitness):
            x.violate("C04/tree-best-got-worse", f"reported best went from {self.seq[-1]} to {bi.fitness}")
        self.seq.append(bi.fitness)
        vals = [v for v in w.log.v if v == v]
        if bi.fitness != bi.fitness and vals:
            x.violate("C04/tree-best-is-nan", f"tree reports a NaN best although the objective returned numbers (e.g. {vals[0]})")
        elif not has_loc and vals and not w.desc.get("levelshift"):
            obs = (max if mx else min)(vals)
            if any(v != v for v in w.log.v):
                x.flag("run with NaN objective values")
            if obs != bi.fitness:
                nanrun = any(v != v for v in w.log.v)
                x.violate(
                    "C04/best-not-best-observed" + (":objective-returned-nan:" + "+".join(sorted(set(x.desc["engines"]))) if nanrun else ""),
                    f"reported best {bi.fitness} != best objective value ever observed {obs}",
                    engines=x.desc["engines"],
                )
            else:
                x.flag("best == best observed")
        x.flag("boundary checked")


_NUM = r"[-+]?(?:\d+\.?\d*(?:[eE][-+]?\d+)?|inf|nan)"


class C20Monitor(Monitor):
    MID = ("consult", "round_end")

    def on(self, kind, tree, info):
        x, w = self.x, self.x.w
        if kind in self.MID and x.desc.get("look_mid_step"):
            # looking at the tree in the middle of a metaepoch must not change anything either
            dg = tree_digest(tree)
            nlog = len(w.log)
            try:
                a, b = tree.best_individual, tree.best_individual
                s_a, s_b = tree.summary(), tree.summary()
            except Exception as e:
                x.note(f"mid-step accessor raised {type(e).__name__}")
                return
            if a is not b or s_a != s_b:
                x.violate("C20/not-idempotent:mid-step", "best_individual / summary() give different answers when called twice in the middle of a metaepoch")
            if tree_digest(tree) != dg or len(w.log) != nlog:
                x.violate("C20/accessor-changed-tree", "the tree changed while only reporting accessors were called (mid-metaepoch)")
            x.flag("looked at the tree mid-step")
            return
        if kind != "boundary":
            return
        if str(x.desc.get("obj", "")).startswith("nan"):
            # objective undefined on part of the box: ties among NaN individuals are settled at random by design, so only
            # the clauses 'never invoke the objective' and 'never change the tree' are judged
            dg = tree_digest(tree)
            nlog = len(w.log)
            np_state = np.random.get_state()[1].tobytes(), np.random.get_state()[2]
            for fn in (tree.summary, tree.tree, lambda: tree.best_individual, lambda: tree.all_individuals, lambda: tree.r5s_solutions):
                try:
                    fn()
                except Exception as e:
                    x.note(f"accessor raised {type(e).__name__} (NaN objective)")
            for _, d in tree.all_demes:
                d.best_individual, d.best_current_individual, d.centroid
            if len(w.log) != nlog:
                x.violate("C20/accessor-evaluated", f"accessors invoked the objective {len(w.log) - nlog} times (objective with NaN values)")
            if tree_digest(tree) != dg:
                x.violate("C20/accessor-changed-tree", "the tree digest changed while only reporting / query accessors were called (objective with NaN values)")
            if (np.random.get_state()[1].tobytes(), np.random.get_state()[2]) != np_state:
                # (NaN-against-NaN ties are settled with Python's `random` by design; numpy's generator is the one the engines draw from)
                x.violate("C20/accessor-touched-numpy-rng", "reporting / query accessors advanced numpy's global generator: looking at the tree changes what later metaepochs evaluate")
            x.flag("boundary checked (NaN objective, reduced clauses)")
            return
        dg = tree_digest(tree)
        nlog = len(w.log)
        st = np.random.get_state()[1].tobytes()
        ps = random.getstate()
        acc = {}

        def call(name, fn):
            try:
                a = fn()
                a_snap = snap(a)  # the answer as it was when given (the accessor may hand out an object it keeps mutating)
                b = fn()
            except Exception as e:
                x.note(f"accessor {name} raised {type(e).__name__}")
                return None
            if not same(a_snap, b) or not same(a_snap, a):
                x.violate(f"C20/not-idempotent:{name}", f"{name} gives different answers when called twice")
            return a

        s1 = call("summary", tree.summary)
        t1 = call("tree", tree.tree)
        bi = call("best_individual", lambda: tree.best_individual)
        call("all_individuals", lambda: tree.all_individuals)
        call("r5s_solutions", lambda: tree.r5s_solutions)
        for _, d in tree.all_demes:
            call("deme.best_individual", lambda: d.best_individual)
            call("deme.best_current_individual", lambda: d.best_current_individual)
            call("deme.centroid", lambda: d.centroid)
            call("deme.best_fitness_by_metaepoch", lambda: d.best_fitness_by_metaepoch)
        if tree_digest(tree) != dg:
            x.violate("C20/accessor-changed-tree", "the tree digest changed while only reporting / query accessors were called")
        if len(w.log) != nlog:
            x.violate("C20/accessor-evaluated", f"accessors invoked the objective {len(w.log) - nlog} times")
        if np.random.get_state()[1].tobytes() != st or random.getstate() != ps:
            x.violate("C20/accessor-touched-rng", "a reporting accessor consumed random numbers")
        x.flag("boundary checked")
        if s1 is None or t1 is None or bi is None:
            return
        self.parse(tree, s1, t1, bi)

    def parse(self, tree, s1, t1, bi):
        x = self.x
        m = re.search(r"^Metaepoch count: (\d+)", s1, re.M)
        if not m or int(m.group(1)) != tree.metaepoch_count:
            x.violate("C20/summary-metaepoch-count", f"summary says {m.group(1) if m else None}, tree.metaepoch_count={tree.metaepoch_count}")
        head = s1.split("\n\nLevel ")[0]
        m = re.search(r"^Number of evaluations: (\d+)", head, re.M)
        if not m or int(m.group(1)) != tree.n_evaluations:
            x.violate("C20/summary-total-evaluations", f"summary says {m.group(1) if m else None}, tree.n_evaluations={tree.n_evaluations}")
        per_deme = sum(d.n_evaluations for _, d in tree.all_demes)
        if m and int(m.group(1)) != per_deme:
            # the total of the tree's state is the sum of its demes' counters, whatever tree.n_evaluations answers
            x.violate("C20/summary-total-vs-demes", f"summary says {m.group(1)} evaluations in total, the demes' counters sum to {per_deme}")
        m = re.search(r"^Number of demes: (\d+)", head, re.M)
        if not m or int(m.group(1)) != len(tree.all_demes):
            x.violate("C20/summary-total-demes", f"summary says {m.group(1) if m else None} demes, tree has {len(tree.all_demes)}")
        # the true best: brute force over every history (not the accessor the report itself uses)
        btr = better(x.w.maximize)
        true_best = None
        for _, d in tree.all_demes:
            for ind in d.all_individuals:
                if true_best is None or btr(ind.fitness, true_best):
                    true_best = ind.fitness
        m = re.search(rf"^Best fitness: ({_NUM})", head, re.M)
        if not m or not same_formatted(m.group(1), true_best):
            x.violate("C20/summary-best-fitness", f"summary says {m.group(1) if m else None}, the best fitness in the tree is {true_best}")
        if bi.fitness != true_best and not (bi.fitness != bi.fitness and true_best != true_best):
            x.violate("C20/best-individual-stale", f"tree.best_individual has fitness {bi.fitness}, the best fitness in the tree is {true_best}")
        class _B:  # the marker is judged against the true best as well
            fitness = true_best
        bi = _B
        body = s1
        if t1 and t1 in s1:
            body = s1[: s1.index(t1)]
        parts = re.split(r"\n\nLevel (\d+)\.\n", body)
        seen_levels = set()
        for j in range(1, len(parts), 2):
            lvl = int(parts[j]) - 1
            seen_levels.add(lvl)
            blk = parts[j + 1]
            if lvl >= len(tree.levels):
                x.violate("C20/summary-extra-level", f"summary lists level {lvl + 1}")
                continue
            demes = tree.levels[lvl]
            if demes:
                me = re.search(r"Number of evaluations: (\d+)", blk)
                md = re.search(r"Number of demes: (\d+)", blk)
                want = sum(d.n_evaluations for d in demes)
                if not me or int(me.group(1)) != want:
                    x.violate("C20/summary-level-evaluations", f"level {lvl + 1}: summary says {me.group(1) if me else None}, demes sum to {want}")
                if not md or int(md.group(1)) != len(demes):
                    x.violate("C20/summary-level-demes", f"level {lvl + 1}: summary says {md.group(1) if md else None} demes, there are {len(demes)}")
            elif "No demes available." not in blk:
                x.violate("C20/summary-empty-level", f"level {lvl + 1} is empty but the summary does not say so")
        if seen_levels != set(range(len(tree.levels))):
            x.violate("C20/summary-levels-missing", f"summary lists levels {sorted(seen_levels)}")
        lines = [ln for ln in t1.split("\n") if "evals:" in ln]
        shown = [d for _, d in tree.all_demes if d.level == 0 or d.metaepoch_count >= 1]
        if len(lines) != len(shown):
            x.violate("C20/tree-line-count", f"tree() has {len(lines)} deme lines, {len(shown)} demes are to be displayed")
        for d in shown:
            nm = "root" if d.level == 0 else d.id
            pat = re.compile(rf"{re.escape(type(d).__name__)} {re.escape(nm)} ")
            cand = [ln for ln in lines if pat.search(ln)]
            if len(cand) != 1:
                x.violate("C20/tree-line-missing", f"{len(cand)} lines for deme {nm}")
                continue
            ln = cand[0]
            me = re.search(r"evals: (\d+)", ln)
            if not me or int(me.group(1)) != d.n_evaluations:
                x.violate("C20/tree-line-evaluations", f"line of {nm} says {me.group(1) if me else None}, deme has {d.n_evaluations}")
            star = "***" in ln
            should = d.best_individual is not None and d.best_individual.fitness == bi.fitness
            if should:
                x.flag("marker checked" + (" at best==0.0" if bi.fitness == 0 else ""))
            if star != should:
                if should and bi.fitness == 0:
                    x.violate("C20/marker-missing-at-best-zero", f"deme {nm} holds the global best 0.0 but carries no *** marker")
                else:
                    x.violate("C20/marker-wrong", f"deme {nm}: marker={star}, holds global best={should} (best={bi.fitness})")
        x.flag("report parsed")


def same_formatted(txt, val):
    try:
        return txt == f"{val:.4e}" or float(txt) == float(f"{val:.4e}")
    except Exception:
        return False


def snap(a):
    if isinstance(a, list):
        return list(a)
    if isinstance(a, tuple):
        return tuple(a)
    if isinstance(a, dict):
        return dict(a)
    if isinstance(a, np.ndarray):
        return a.copy()
    return a


def same(a, b):
    if a is b:
        return True
    if isinstance(a, np.ndarray) or isinstance(b, np.ndarray):
        try:
            return bool(np.array_equal(np.asarray(a), np.asarray(b), equal_nan=True))
        except Exception:
            return False
    if isinstance(a, (list, tuple)) and isinstance(b, (list, tuple)):
        return len(a) == len(b) and all(same(u, v) for u, v in zip(a, b))
    if isinstance(a, dict) and isinstance(b, dict):
        return a.keys() == b.keys() and all(same(a[k], b[k]) for k in a)
    if hasattr(a, "genome") and hasattr(b, "genome"):
        return a is b
    return a == b
