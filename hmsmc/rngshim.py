"""Choice kind R: every draw from NumPy's global generator (and scipy.stats.cauchy.rvs) goes
through a seam. Default answer = the seeded stream's (the original is always called, so the
stream advances identically); a deviation replaces the answer of ONE call by an adversarial
answer that lies in the support of the distribution.

The wrappers are installed once (module attributes of numpy.random, instance attribute of
scipy.stats.cauchy) and are pure pass-throughs while no shim is active.
"""
from __future__ import annotations

import inspect

import numpy as np
import scipy.stats

from .explorer import Abort
from .world import HarnessError

NAMES = ["normal", "uniform", "rand", "randint", "choice", "randn", "multivariate_normal", "shuffle"]
_ORIG = {}
_ACTIVE = [None]
_INSTALLED = [False]


def install():
    if _INSTALLED[0]:
        return
    for n in NAMES:
        _ORIG[n] = getattr(np.random, n)
        setattr(np.random, n, _make(n))
    _ORIG["cauchy"] = scipy.stats.cauchy.rvs
    scipy.stats.cauchy.rvs = _make("cauchy")
    _INSTALLED[0] = True


def _make(name):
    def wrapper(*a, **k):
        sh = _ACTIVE[0]
        if sh is None:
            return _ORIG[name](*a, **k)
        return sh.call(name, a, k)

    wrapper.__name__ = f"shim_{name}"
    return wrapper


def _bind(name, a, k):
    """Bind positional/keyword arguments of the intercepted call by name."""
    if name == "normal":
        names, defaults = ["loc", "scale", "size"], [0.0, 1.0, None]
    elif name == "uniform":
        names, defaults = ["low", "high", "size"], [0.0, 1.0, None]
    elif name == "randint":
        names, defaults = ["low", "high", "size", "dtype"], [None, None, None, int]
    elif name == "choice":
        names, defaults = ["a", "size", "replace", "p"], [None, None, True, None]
    elif name == "multivariate_normal":
        names, defaults = ["mean", "cov", "size"], [None, None, None]
    elif name == "shuffle":
        names, defaults = ["x"], [None]
    elif name == "cauchy":
        names, defaults = ["loc", "scale", "size"], [0.0, 1.0, 1]
    else:
        return {"shape": a}
    out = dict(zip(names, defaults))
    for n, v in zip(names, a):
        out[n] = v
    for n, v in k.items():
        if n in out:
            out[n] = v
    return out


def _like(r0, val):
    """An answer with exactly the shape and dtype of the real draw."""
    if isinstance(r0, np.ndarray):
        return (np.zeros_like(r0) + np.asarray(val)).astype(r0.dtype, copy=False)
    if isinstance(r0, (bool, np.bool_)):
        return type(r0)(val)
    if isinstance(r0, (int, np.integer)):
        return type(r0)(int(np.asarray(val).reshape(-1)[0]) if np.ndim(val) else int(val))
    if isinstance(r0, (float, np.floating)):
        return type(r0)(float(np.asarray(val).reshape(-1)[0]) if np.ndim(val) else float(val))
    return val


class Shim:
    """One per execution. `menu` selects which answer families are offered."""

    DRAW_CAP = 20000

    def __init__(self, menu="full", only=None):
        install()
        self.menu_kind = menu
        self.only = only
        self.world = None
        self.n_calls = 0
        self.kinds = []

    # life cycle -----------------------------------------------------------------------
    def begin(self, execution):
        _ACTIVE[0] = self

    def attach(self, world):
        self.world = world
        _ACTIVE[0] = self

    def finish(self):
        if _ACTIVE[0] is self:
            _ACTIVE[0] = None

    # the seam -------------------------------------------------------------------------
    def call(self, name, a, k):
        self.n_calls += 1
        if self.n_calls > self.DRAW_CAP:
            raise Abort("draw-call cap")
        if name == "shuffle":
            x = a[0] if a else k["x"]
            before = np.array(x, copy=True)
            _ORIG[name](*a, **k)
            w = self.world
            if w is None or "R" not in w.choices:
                return None
            answers = self.answers(name, {"x": x, "before": before}, None)
            opt = w.ch.choose("R", name, 1 + len(answers))
            if opt > 0:
                ans = answers[opt - 1]
                if np.shape(ans) != np.shape(before):
                    raise HarnessError("shuffle answer shape")
                x[...] = ans
            return None
        r0 = _ORIG[name](*a, **k)
        w = self.world
        if w is None or "R" not in w.choices:
            return r0
        args = _bind(name, a, k)
        answers = self.answers(name, args, r0)
        if not answers:
            return r0
        opt = w.ch.choose("R", name, 1 + len(answers))
        if opt == 0:
            return r0
        ans = answers[opt - 1]
        if np.shape(ans) != np.shape(r0) or (isinstance(r0, np.ndarray) and ans.dtype != r0.dtype):
            raise HarnessError(f"R answer for {name} has shape/dtype {np.shape(ans)}/{getattr(ans, 'dtype', type(ans))}, real draw {np.shape(r0)}/{getattr(r0, 'dtype', type(r0))}")
        return ans

    # menus ----------------------------------------------------------------------------
    def answers(self, name, args, r0):
        if self.only is not None and name not in self.only:
            return []
        box = self.world.box if self.world is not None else None
        ident = self.menu_kind == "identity"
        out = []
        if name == "normal":
            loc, scale = args["loc"], args["scale"]
            z = np.zeros_like(r0) if isinstance(r0, np.ndarray) else 0.0
            base = z + loc
            out.append(_like(r0, base))
            if ident:
                return out
            out.append(_like(r0, base + 4 * np.asarray(scale)))
            out.append(_like(r0, base - 4 * np.asarray(scale)))
            if box is not None and isinstance(r0, np.ndarray) and r0.ndim == 2 and r0.shape[1] == len(box):
                rng = box[:, 1] - box[:, 0]
                u = np.spacing(np.maximum(np.abs(box[:, 0]), np.abs(box[:, 1])))
                out.append(_like(r0, base + u))
                out.append(_like(r0, base - u))
                out.append(_like(r0, base + rng))
                out.append(_like(r0, base - rng))
                out.append(_like(r0, base + 2 * rng))
        elif name == "uniform":
            low, high = np.asarray(args["low"], dtype=float), np.asarray(args["high"], dtype=float)
            if ident:
                return []
            out.append(_like(r0, low))
            out.append(_like(r0, np.nextafter(high, low)))
            out.append(_like(r0, (low + high) / 2))
        elif name == "rand":
            top = 1.0 - 2.0**-53
            out.append(_like(r0, top))
            if not ident:
                out.append(_like(r0, 0.0))
        elif name == "randint":
            if ident:
                return []
            low, high = args["low"], args["high"]
            if high is None:
                low, high = 0, low
            out.append(_like(r0, low))
            out.append(_like(r0, np.asarray(high) - 1))
        elif name == "choice":
            if ident:
                return []
            arr = args["a"]
            arr = np.arange(arr) if np.ndim(arr) == 0 else np.asarray(arr)
            size = args["size"]
            if size is None:
                out.append(_like(r0, arr[0]))
                out.append(_like(r0, arr[-1]))
            else:
                n = int(np.prod(size))
                if args["replace"]:
                    out.append(_like(r0, arr[0]))
                    out.append(_like(r0, arr[-1]))
                elif n <= len(arr):
                    out.append(np.array(arr[:n]).reshape(np.shape(r0)).astype(r0.dtype))
                    out.append(np.array(arr[len(arr) - n :]).reshape(np.shape(r0)).astype(r0.dtype))
        elif name == "randn":
            out.append(_like(r0, 0.0))
            if not ident:
                out.append(_like(r0, 3.0))
                out.append(_like(r0, -3.0))
        elif name == "multivariate_normal":
            mean = np.asarray(args["mean"], dtype=float)
            sd = np.sqrt(np.diag(np.asarray(args["cov"], dtype=float)))
            out.append(_like(r0, mean))
            if not ident:
                out.append(_like(r0, mean + 4 * sd))
                out.append(_like(r0, mean - 4 * sd))
        elif name == "shuffle":
            if ident:
                return []
            b = args["before"]
            out.append(np.array(b, copy=True))
            out.append(np.array(b[::-1], copy=True))
        elif name == "cauchy":
            if ident:
                return []
            out.append(_like(r0, args["loc"]))
            out.append(_like(r0, 0.99))
            out.append(_like(r0, 1e-12))
        return out
