"""Worlds beyond the small scope: populations above 64 / 128, dimension 12 and 30, dozens of demes on a level, hundreds of
children, four levels, histories of hundreds of generations, tens of thousands of evaluations.

The exhaustive exploration (all L/S vectors, bounded G/L/S/R deviations) stays in the small worlds; here every world is run
ONCE (no deviations) under the same monitors. What they add is the reach of every threshold-switched code path a library can
have (`if n > 64`, block-wise processing with a partial last block, narrow integer counters, bounded buffers, keys built from
a prefix of the genome, ...), none of which a small world can enter."""
from __future__ import annotations


def big_population_worlds(tier, seed, engines=None):
    """Populations of 100 and 150 (not multiples of 64, above 128) in dimension 12 with per-dimension bounds; objectives with ties."""
    s = 1 + seed % 1000
    shapes = engines or [("SEA", "DE"), ("DE", "SHADE"), ("SHADE", "SEA"), ("MWEA", "SEAX"), ("GA", "CMAf"), ("LHS", "DE"), ("SEAX", "GA"), ("DEd", "SEAA")]
    objs = ("sphere_in", "plateau", "intpen", "twofunnel", "lin_corner")
    out = []
    Mh = 5 if tier == "quick" else 12
    for k, eng in enumerate(shapes):
        for mx in (False, True):
            out.append(dict(engines=list(eng), gens=2, pop=(100, 150)[(k + mx) % 2], box="B_12d", obj=objs[(k + mx) % len(objs)], maximize=mx, Mh=Mh, seed=s + k,
                            sprout={"kind": ("simple", "nbc")[k % 2], "L": 3}, kelites=1 + k % 3, pmut=(1.0, 0.5)[k % 2], scale="population"))
    return out


def high_dimension_worlds(tier, seed):
    """Dimension 30, small populations; memoising problems with operators that leave most coordinates untouched."""
    s = 1 + seed % 1000
    out = []
    for k, eng in enumerate([("DE", "SEA"), ("SEA", "CMAf"), ("SHADE", "DE"), ("LHS", "CMAw"), ("GA", "LOC")]):
        out.append(dict(engines=list(eng), gens=2, pop=12, box="B_30d", obj=("sphere_in", "twofunnel", "lin_corner")[k % 3], maximize=bool(k % 2), Mh=4 if tier == "quick" else 8, seed=s + k,
                        sprout={"kind": ("simple", "nbc")[k % 2], "L": 2}, de_crossover=0.3, pmut=0.25, use_cache=bool(k % 2 == 0), scale="dimension"))
    return out


def long_history_worlds(tier, seed):
    """Histories of more than 512 generations / more than 2048 individuals in one deme, non-elitist engines included."""
    s = 1 + seed % 1000
    out = []
    for k, (eng, ke) in enumerate([(("SEA",), 0), (("LHS", "CMAf"), 1), (("SEA", "DE"), 1), (("MWEA",), 2)]):
        out.append(dict(engines=list(eng), gens=20, pop=6, obj=("twofunnel", "sphere_in")[k % 2], maximize=bool(k % 2), Mh=60 if k < 2 else (28 if tier == "thorough" else 6), seed=s + k, kelites=ke,
                        sprout={"kind": "simple", "L": 1}, lsc=[None] * len(eng), scale="history"))
    return out


def many_evaluation_worlds(tier, seed):
    """More than 32767 evaluations on one level, more than 40000 in the tree (narrow counters)."""
    s = 1 + seed % 1000
    out = [dict(engines=["DE", "CMAf"], gens=5, pop=150, box="B_12d", obj="sphere_in", maximize=False, Mh=60, seed=s, sprout={"kind": "simple", "L": 2},
                gsc={"kind": "evals", "n": 40000}, drive="run", scale="evaluations")]
    if tier == "thorough":
        out.append(dict(engines=["SEA", "DE"], gens=5, pop=150, box="B_12d", obj="twofunnel", maximize=True, Mh=60, seed=s + 1, sprout={"kind": "simple", "L": 2},
                        gsc={"kind": "fevals", "n": 38000, "weights": "equal"}, drive="run", scale="evaluations"))
    return out


def many_deme_worlds(tier, seed):
    """Dozens of active demes on a level (level limit 40-60), hundreds of demes created on a level over time, four levels."""
    s = 1 + seed % 1000
    out = []
    # many candidates per round, large level limit: more than 32 demes active at once, under each norm of the distance filter
    for k, (eng, ordn) in enumerate([(("SOB", "SEA"), 2), (("LHS", "DE"), "inf"), (("SEA", "DE"), 1), (("DE", "CMAf"), "inf")]):
        out.append(dict(engines=list(eng), gens=1, pop=80 if eng[0] not in ("SOB", "LHS") else 6, lhs_pop=80, box="B_sym", obj="twofunnel", maximize=bool(k % 2), Mh=5 if tier == "quick" else 9, seed=s + k,
                        hib=bool(k % 2), lsc=[None, {"kind": "metaepoch", "m": 2 + k % 3}],
                        sprout={"kind": "composed", "L": 50, "gen": {"kind": "nbc", "factor": 0.3, "trunc": 1.0},
                                "deme_chain": [{"kind": "farenough", "dist": 0.15, "ord": ordn}], "tree_chain": [{"kind": "skipsame"}, {"kind": "levellimit", "limit": 50}]},
                        scale="demes"))
    # more than 64 children created by ONE sprouting round
    out.append(dict(engines=["SEA", "DE"], gens=1, pop=150, box="B_sym", obj="twofunnel", maximize=False, Mh=2, seed=s, hib=True, lsc=[None, {"kind": "metaepoch", "m": 2}],
                    sprout={"kind": "composed", "L": 140, "gen": {"kind": "nbc", "factor": 0.05, "trunc": 1.0}, "deme_chain": [], "tree_chain": [{"kind": "levellimit", "limit": 140}]},
                    scale="demes"))
    # ... and by dozens of different parents in one round (three levels)
    out.append(dict(engines=["LHS", "DE", "SEA"], gens=1, pop=6, lhs_pop=80, box="B_sym", obj="twofunnel", maximize=True, Mh=3, seed=s + 1, hib=True, lsc=[None, None, {"kind": "metaepoch", "m": 2}],
                    sprout={"kind": "composed", "L": 250, "gen": {"kind": "nbc", "factor": 0.05, "trunc": 1.0}, "deme_chain": [], "tree_chain": [{"kind": "levellimit", "limit": 250}]},
                    scale="demes"))
    # one new child per metaepoch for a long time: ids with three digits, more than 64 / 256 seeds sprouted on one level
    for k, eng in enumerate([("LHS", "DE"), ("SOB", "SEA", "SHADE")]):
        out.append(dict(engines=list(eng), gens=1, Mh=(70 if tier == "quick" else 270) if k == 0 else (40 if tier == "quick" else 90), hib=bool(k), seed=s + k, choices="",
                        lsc=[None] + ([{"kind": "metaepoch", "m": 1}] if k == 0 else ["allchildren", {"kind": "metaepoch", "m": 1}]),
                        gsc={"kind": "horizon"}, maximize=bool(k % 2), obj="twofunnel",
                        sprout={"kind": "composed", "L": 1 if k == 0 else 3, "gen": {"kind": "best"}, "deme_chain": [], "tree_chain": [{"kind": "skipsame"}, {"kind": "levellimit", "limit": 1 if k == 0 else 3}]},
                        scale="children"))
    # four levels with hibernation
    for k, eng in enumerate([("SEA", "DE", "SEA", "DE"), ("DE", "SEA", "SHADE", "CMAf")]):
        out.append(dict(engines=list(eng), gens=1, Mh=9 if tier == "quick" else 14, hib=True, seed=s + k, choices="", lsc=[None, None, None, {"kind": "metaepoch", "m": 2}],
                        maximize=bool(k % 2), obj="twofunnel", sprout={"kind": "simple", "L": 3, "far": 0.02}, scale="levels"))
    return out


def long_metaepoch_worlds(tier, seed):
    """Forty generations per metaepoch; the global condition is forced at every single consult (choices 'G', bound 1)."""
    s = 1 + seed % 1000
    return [dict(engines=list(eng), gens=40 if k == 0 else 24, pop=8, Mh=2, seed=s + k, choices="G", maximize=bool(k % 2), obj="sphere_in", sprout={"kind": "simple", "L": 2}, scale="generations")
            for k, eng in enumerate([("SEA", "DE"), ("DE", "CMAf"), ("SHADE",)])]


def lifecycle_scale_worlds(tier, seed):
    """The scale worlds that the lifecycle checks (C05-C08, C10, C18, C20) run: (mode, desc) pairs as in runlib.lifecycle_descs."""
    out = []
    for d in (many_deme_worlds(tier, seed) + long_history_worlds(tier, seed)[:2] + big_population_worlds(tier, seed, engines=[("SEA", "DE"), ("SHADE", "SEA"), ("GA", "CMAf")])
              + [dict(w, use_cache=False) for w in high_dimension_worlds(tier, seed)[:3]]):
        out.append(("bounded", dict(d, choices="", gsc=d.get("gsc", {"kind": "horizon"}), time_cap=150.0)))
    for d in long_metaepoch_worlds(tier, seed):
        out.append(("bounded", dict(d, gsc={"kind": "horizon"}, max_bound=1)))
    return out


def long_local_search_worlds(tier, seed):
    """Local searches of several hundred iterations / more than 15000 objective calls (dimension 30, ill-conditioned objective)."""
    s = 1 + seed % 1000
    out = [dict(engines=["SEA", "LOC"], gens=1, pop=12, box="B_30d", obj="illcond", maximize=False, Mh=2, seed=s, sprout={"kind": "simple", "L": 1}, loc_maxiter=400, scale="local-search")]
    if tier == "thorough":
        out.append(dict(engines=["DE", "LOC"], gens=1, pop=12, box="B_30d", obj="illcond", maximize=True, Mh=2, seed=s + 1, sprout={"kind": "simple", "L": 1}, loc_maxiter=15000, scale="local-search"))
    return out
