"""Stateless deviation-bounded explorer: executions of the real pyhms code, identified by
(world descriptor, deviation list), re-run from the initial state each time."""
from __future__ import annotations

import collections
import hashlib
import signal
import threading
import time
import traceback

import numpy as np

from .world import HarnessError, World, canonical_state, census, h64, tree_digest


class Vacuous(Exception):
    """The exploration did not reach what the check claims to cover (harness error, exit 3)."""


class Abort(Exception):
    """A runaway execution (eval / draw / time cap) - counted outcome, never a violation."""


class Monitor:
    """Base class of property monitors. `on` is called at every probe of the world."""

    def __init__(self, x: "Execution"):
        self.x = x

    def on(self, kind, tree, info):
        pass

    def end(self, tree):
        pass


class CanonMonitor(Monitor):
    """Reporting only: canonical states / transitions / observation digest."""

    def __init__(self, x):
        super().__init__(x)
        self.seen_true = False
        self.prev = None
        self.obs = hashlib.blake2b(digest_size=8)

    def on(self, kind, tree, info):
        if kind == "consult" and info["verdict"]:
            self.seen_true = True
        if kind in ("consult", "boundary", "round_end", "end"):
            s = h64(canonical_state(tree, self.seen_true))
            x = self.x
            x.states.add(s)
            if self.prev is not None:
                x.transitions.add(h64((self.prev, kind, s)))
            self.prev = s
            self.obs.update(s.to_bytes(8, "big"))
            self.obs.update(kind.encode())


class Execution:
    EVAL_CAP = 60000
    TIME_CAP = 12.0  # seconds of CPU time of this process (not wall clock: the machine may be busy); healthy executions need 5 ms - 2 s

    def __init__(self, desc, dev=(), monitor_classes=(), shim=None, drive=None, keep_world=True):
        self.desc = desc
        # (scale worlds - hundreds of demes, tens of thousands of evaluations, monitors that rescan everything at each boundary - name a larger cap)
        self.time_cap = float(desc.get("time_cap", self.TIME_CAP))
        self.dev = [tuple(p) for p in dev]
        self.monitor_classes = list(monitor_classes)
        self.shim = shim
        self.drive = drive or desc.get("drive", "steps")
        self.violations = []
        self.viol_counts = collections.Counter()
        self.notes = collections.Counter()
        self.flags = set()
        self.states = set()
        self.transitions = set()
        self.status = "ok"
        self.exc = None
        self.w = None
        self.tree = None
        self.steps = 0
        self.extra = collections.Counter()

    def violate(self, sig, msg, **detail):
        # every violation is counted; only the first few per signature keep their text (formatting is costly)
        self.viol_counts[sig] += 1
        if self.viol_counts[sig] <= 2:
            self.violations.append({"sig": sig, "msg": msg() if callable(msg) else msg, "detail": detail})

    def note(self, what):
        self.notes[what] += 1

    def flag(self, what):
        self.flags.add(what)

    def extra_count(self, what, n=1):
        self.extra[what] += n

    # ----------------------------------------------------------------------------------
    def _alarm(self, signum, frame):
        raise Abort("CPU-time cap (watchdog)")

    def run(self):
        t0 = time.process_time()
        # watchdog: a runaway that never reaches the objective (e.g. an endless rejection loop) must end as the
        # counted outcome 'aborted', not hang the check
        armed = False
        if threading.current_thread() is threading.main_thread():
            try:
                old = signal.signal(signal.SIGPROF, self._alarm)
                signal.setitimer(signal.ITIMER_PROF, self.time_cap * 1.5)
                armed = True
            except (ValueError, OSError):
                armed = False
        try:
            if self.shim is not None:
                self.shim.begin(self)
            self._run(t0)
        except Abort as e:
            self.status = "aborted"
            self.exc = str(e)
        except HarnessError:
            raise
        except Exception as e:  # pyhms raised: counted outcome, monitors' verdicts so far stand
            self.status = "exception"
            self.exc = "".join(traceback.format_exception_only(type(e), e)).strip()
            self.exc_tb = traceback.format_exc(limit=12)
            try:
                self.exc_file = traceback.extract_tb(e.__traceback__)[-1].filename
            except Exception:
                self.exc_file = ""
        finally:
            if armed:
                signal.setitimer(signal.ITIMER_PROF, 0)
                signal.signal(signal.SIGPROF, old)
            if self.shim is not None:
                self.shim.finish()
        return self

    def _run_op(self, t0):
        from .opworld import OpWorld

        w = OpWorld(self.desc, self.dev, shim=self.shim)
        self.w = w
        mons = [mc(self) for mc in self.monitor_classes]
        self.monitors = mons
        w.monitors = mons
        self.canon = None
        pre = h64(("op", self.desc.get("op"), self.desc.get("pop"), self.desc.get("box"), self.desc.get("maximize")))
        self.states.add(pre)
        w.run_op()
        post = h64(("op-out", [v.tobytes() for v in w.log.x], w.log.v))
        self.states.add(post)
        self.transitions.add(h64((pre, tuple(self.dev), post)))
        for m in mons:
            m.end(None)

    def _run(self, t0):
        if "op" in self.desc:
            return self._run_op(t0)
        for pre in self.desc.get("prelude", ()):
            # worlds that ran earlier in this process (their trees are finished and dropped): whatever they leave behind
            # in the library - class attributes, module-level tables, memoised properties of reused objects - is still there
            pw = World(pre, ())
            pw.tree.run()
        w = World(self.desc, self.dev, shim=self.shim)
        self.w = w
        self.tree = tree = w.tree

        def cap(level, x, v):
            if len(w.log) > self.EVAL_CAP or time.process_time() - t0 > self.time_cap:
                raise Abort("eval/time cap")

        w.log.hooks.append(cap)
        self.canon = CanonMonitor(self)
        mons = [self.canon] + [mc(self) for mc in self.monitor_classes]
        self.monitors = mons
        w.monitors = mons
        w.emit("start", tree, {})
        if self.drive == "run":
            tree.run()
        elif self.drive == "steps":
            w.emit("boundary", tree, {"k": 0})
            while not w.gsc(tree):
                w.emit("step_begin", tree, {"k": self.steps})
                tree.run_step()
                self.steps += 1
                w.emit("boundary", tree, {"k": self.steps})
                if self.desc.get("print_at_boundaries"):
                    # a user who prints the reports between steps (after the monitors have looked)
                    tree.summary()
                    tree.tree()
        else:
            raise HarnessError(f"unknown drive {self.drive}")
        w.emit("end", tree, {})
        for m in mons:
            m.end(tree)

    # ----------------------------------------------------------------------------------
    def observation_digest(self):
        h = hashlib.blake2b(digest_size=12)
        if self.w is not None:
            h.update(repr(self.w.ch.points).encode())
            h.update(str(len(self.w.log)).encode())
        if getattr(self, "canon", None) is not None:
            h.update(self.canon.obs.digest())
        elif self.w is not None:
            h.update(b"".join(v.tobytes() for v in self.w.log.x))
        h.update(self.status.encode())
        if self.tree is not None and self.status == "ok":
            h.update(tree_digest(self.tree).encode())
        return h.hexdigest()

    def outcome(self):
        if self.tree is None:
            if self.w is not None and hasattr(self.w, "outputs"):
                return h64(("op", self.status, len(self.w.log), tuple(sorted(self.flags))))
            return h64(("noworld", self.status))
        try:
            return h64((self.status, canonical_state(self.tree, self.canon.seen_true)))
        except Exception:
            return h64(("unreadable", self.status))

    def sample(self, max_points=12):
        pts = self.w.ch.points if self.w else []
        return {
            "desc": compact_desc(self.desc),
            "deviations": [list(p) for p in self.dev],
            "choice_points": len(pts),
            "first_points": [list(p) for p in pts[:max_points]],
            "status": self.status,
            "metaepochs": getattr(self.tree, "metaepoch_count", None),
            "demes": (
                {k: (v["typ"], v["level"], v["active"], v["me"], v["nev"]) for k, v in census(self.tree).items()}
                if self.tree is not None and self.status == "ok"
                else None
            ),
            "objective_calls": len(self.w.log) if self.w else 0,
        }


def compact_desc(desc):
    return {k: v for k, v in desc.items()}


# --------------------------------------------------------------------------------------


class Result:
    """Accumulated over executions; merged over units in the parent."""

    def __init__(self):
        self.executions = 0
        self.points = 0
        self.states = set()
        self.transitions = set()
        self.outcomes = set()
        self.nontrivial = set()
        self.flags = collections.Counter()
        self.notes = collections.Counter()
        self.status = collections.Counter()
        self.dev_kinds = collections.Counter()
        self.by_bound = collections.Counter()
        self.violations = []  # dict(sig,msg,detail,replay)
        self.viol_counts = collections.Counter()
        self.samples = []
        self.exceptions = []
        self.replay_audits = 0
        self.replay_mismatches = 0
        self.prefix_mismatches = 0
        self.horizon_hits = 0
        self.configs = 0
        self.configs_completed = 0
        self.extra = collections.Counter()
        self.capped = False
        self.wall = 0.0
        self.payload = {}

    def merge(self, o: "Result"):
        for k, v in o.payload.items():
            self.payload.setdefault(k, {}).update(v)
        self.executions += o.executions
        self.points += o.points
        self.states |= o.states
        self.transitions |= o.transitions
        self.outcomes |= o.outcomes
        self.nontrivial |= o.nontrivial
        for a in ("flags", "notes", "status", "dev_kinds", "by_bound", "viol_counts", "extra"):
            getattr(self, a).update(getattr(o, a))
        for v in o.violations:
            if sum(1 for u in self.violations if u["sig"] == v["sig"]) < 3:
                self.violations.append(v)
        if len(self.samples) < 6:
            self.samples.extend(o.samples[: 6 - len(self.samples)])
        if len(self.exceptions) < 5:
            self.exceptions.extend(o.exceptions[: 5 - len(self.exceptions)])
        self.replay_audits += o.replay_audits
        self.replay_mismatches += o.replay_mismatches
        self.prefix_mismatches += o.prefix_mismatches
        self.horizon_hits += o.horizon_hits
        self.configs += o.configs
        self.configs_completed += o.configs_completed
        self.capped = self.capped or o.capped
        self.wall += o.wall

    def add_violation(self, check_id, sig, msg, detail, replay):
        self.viol_counts[sig] += 1
        if sum(1 for u in self.violations if u["sig"] == sig) < 2:
            self.violations.append({"sig": sig, "msg": msg, "detail": detail, "replay": replay})

    def absorb(self, x: Execution, check_id, unit, nontrivial_rule=None, sample=False):
        self.executions += 1
        self.by_bound[len(x.dev)] += 1
        self.status[x.status] += 1
        if x.w is not None:
            self.points += len(x.w.ch.points)
            for i, _ in x.dev:
                if i < len(x.w.ch.points):
                    self.dev_kinds[x.w.ch.points[i][0]] += 1
        self.states |= x.states
        self.transitions |= x.transitions
        self.outcomes.add(x.outcome())
        self.notes.update(x.notes)
        self.extra.update(x.extra)
        for f in x.flags:
            self.flags[f] += 1
        if x.status == "exception" and len(self.exceptions) < 3:
            self.exceptions.append({"desc": x.desc, "dev": x.dev, "exc": x.exc, "tb": getattr(x, "exc_tb", "")})
        if x.status == "ok" and x.w is not None:
            try:
                if x.w.horizon_hit():
                    self.horizon_hits += 1
            except Exception:
                pass
        if nontrivial_rule is not None and nontrivial_rule(x):
            self.nontrivial.add(h64((x.desc, x.dev)))
        for v in x.violations:
            self.add_violation(
                check_id,
                v["sig"],
                v["msg"],
                v["detail"],
                {"check": check_id, "unit": unit, "desc": x.desc, "dev": [list(p) for p in x.dev]},
            )
        for sig, n in x.viol_counts.items():
            extra_n = n - sum(1 for v in x.violations if v["sig"] == sig)
            if extra_n > 0:
                self.viol_counts[sig] += extra_n
        if sample and len(self.samples) < 3:
            self.samples.append(x.sample())


def explore(
    res: Result,
    check_id,
    unit,
    desc,
    monitor_classes,
    bound,
    nontrivial_rule=None,
    shim_factory=None,
    alt_filter=None,
    max_execs=None,
    audit_every=16,
    drive=None,
    on_execution=None,
    start=None,
    solo=False,
    kinds=None,
    parent_points=None,
):
    """Deviation-bounded DFS over the choice points of the world `desc` (iteratively by
    depth of the prefix). Every execution runs the real code from the initial state."""
    t0 = time.time()
    counter = [0]
    completed = [0]
    aborted = [0]
    third_party = [False]

    def run(prefix):
        shim = shim_factory() if shim_factory else None
        x = Execution(desc, prefix, monitor_classes, shim=shim, drive=drive).run()
        counter[0] += 1
        if x.status == "ok":
            completed[0] += 1
        elif x.status == "exception" and counter[0] == 1:
            # innermost frame of the traceback: raised by pyhms itself or inside a third-party library (cma, scipy)?
            third_party[0] = "/site-packages/" in (getattr(x, "exc_file", "") or "")
        res.absorb(x, check_id, unit, nontrivial_rule, sample=(counter[0] in (1, 7)))
        if on_execution is not None:
            on_execution(x)
        if x.status == "aborted":
            aborted[0] += 1
            return x
        if audit_every and (counter[0] % audit_every == 1 or x.violations):
            shim2 = shim_factory() if shim_factory else None
            y = Execution(desc, prefix, monitor_classes, shim=shim2, drive=drive).run()
            res.replay_audits += 1
            if y.observation_digest() != x.observation_digest():
                res.replay_mismatches += 1
        return x

    def rec(prefix, parent_points):
        if (max_execs is not None and counter[0] >= max_execs) or aborted[0] >= 2:
            # (two runaway executions - endless loops inside the library - end the exploration of this world: reported as capped)
            res.capped = True
            return
        x = run(prefix)
        pts = list(x.w.ch.points) if x.w is not None else []
        if parent_points is not None and prefix:
            i = prefix[-1][0]
            if pts[: i + 1] != parent_points[: i + 1]:
                res.prefix_mismatches += 1
        if len(prefix) >= bound or solo:
            return
        last = prefix[-1][0] if prefix else -1
        for i in range(last + 1, len(pts)):
            kind, label, n = pts[i]
            if kinds is not None and kind not in kinds:
                continue
            for alt in range(1, n):
                if alt_filter is not None and not alt_filter(kind, label, alt, i, pts):
                    continue
                rec(prefix + [(i, alt)], pts)

    if not start:
        res.configs += 1
    rec([tuple(p) for p in (start or [])], parent_points)
    if completed[0] > 0 and not start:
        res.configs_completed += 1
    elif not start and third_party[0]:
        # the world's undisturbed run ends in an exception raised INSIDE a third-party library (e.g. an internal assertion of
        # cma after a numerical breakdown): recorded, not a coverage hole of the harness and not a verdict on any property
        res.configs_completed += 1
        res.notes["world whose undisturbed run ends with an exception inside a third-party library"] += 1
    res.wall += time.time() - t0
    return res
