"""Reference oracle: nearest-better clustering exactly as the property statement defines it
(O(n^2), no tree library, no identifiers)."""
from __future__ import annotations

import math

import numpy as np


def nbc_reference(genomes, fits, maximize, factor, trunc, band=1e-9):
    """Returns (status, sure, maybe, distances) over input indices.
    status: OK | EMPTY (nothing kept) | TIE_AT_CUT (a fitness tie straddles the truncation cut:
    the definition does not say which of the tied individuals is kept)."""
    n = len(genomes)
    order = sorted(range(n), key=lambda i: (-fits[i] if maximize else fits[i]))  # stable, best first
    m = int(n * trunc)
    if m == 0:
        return "EMPTY", None, None, None
    keep = order[:m]
    if m < n and fits[order[m - 1]] == fits[order[m]]:
        return "TIE_AT_CUT", None, None, None
    root = keep[0]
    best = fits[root]
    btr = (lambda a, b: a > b) if maximize else (lambda a, b: a < b)
    G = [np.asarray(g, dtype=float) for g in genomes]
    d = {}
    for i in keep[1:]:
        cand = [root] if fits[i] == best else [j for j in keep if btr(fits[j], fits[i])]
        d[i] = min(float(np.linalg.norm(G[i] - G[j])) for j in cand)
    if not d:
        return "OK", {root}, set(), {}
    mean = float(np.mean(list(d.values())))
    thr = factor * mean
    if all(v == math.floor(v) and v < 2.0 ** 40 for v in d.values()):
        # whole-number distances: their sum is exact in any summation order, so the mean and the cut are the same
        # floating-point numbers however they are accumulated - the strict comparison of the definition is decidable
        band = 0.0
    sure = {root} | {i for i, v in d.items() if v > thr * (1 + band)}
    maybe = {i for i, v in d.items() if abs(v - thr) <= thr * band} if band > 0 else set()
    return "OK", sure, maybe, d
