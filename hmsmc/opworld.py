"""OP harness: the narrowest seams - one call of an operator or one engine step of the real
code on a structured parent population, with every draw owned by the chooser (kind R)."""
from __future__ import annotations

import numpy as np

from .world import CallLog, Chooser, HarnessError, Recorder, box_array, make_objective

from pyhms.core.individual import Individual  # noqa: E402
from pyhms.core.population import Population  # noqa: E402
from pyhms.core.problem import EvalCountingProblem, FunctionProblem  # noqa: E402
from pyhms.demes.single_pop_eas.de import DE, SHADE, BinaryMutation, BinaryMutationWithDither, Crossover  # noqa: E402
from pyhms.demes.single_pop_eas.sea import (  # noqa: E402
    MWEA,
    SEA,
    ArithmeticCrossover,
    GaussianMutation,
    GAStyleSEA,
    SEAWithAdaptiveMutation,
    SEAWithCrossover,
    TournamentSelection,
    UniformMutation,
)
from pyhms.initializers import sample_normal, sample_uniform  # noqa: E402

POPS = ["lower", "upper", "corners", "ulp_inside", "mixed", "interior", "duplicates", "tied"]
OPS = [
    "SEA", "SEAX", "GA", "SEAA", "MWEA", "DE", "DEd", "SHADE", "SHADE2", "GA_p", "SEAX_p", "SEA_p",
    "gauss", "unimut", "arith", "tournament", "binmut", "binmut_dither", "de_cross", "sample_normal", "sample_uniform",
]
ENGINE_OPS = ["SEA", "SEAX", "GA", "SEAA", "MWEA", "DE", "DEd", "SHADE", "SHADE2", "GA_p", "SEAX_p", "SEA_p"]


def make_population(kind, box, n=6):
    lo, hi = box[:, 0], box[:, 1]
    mid = (lo + hi) / 2
    rng = hi - lo
    d = len(lo)
    if kind == "lower":
        G = [lo.copy() for _ in range(n)]
    elif kind == "upper":
        G = [hi.copy() for _ in range(n)]
    elif kind == "corners":
        G = []
        for i in range(n):
            G.append(np.array([lo[j] if (i >> j) & 1 == 0 else hi[j] for j in range(d)]))
    elif kind == "ulp_inside":
        G = [np.nextafter(lo, hi), np.nextafter(hi, lo), mid.copy(), mid + rng / 64, np.nextafter(lo, hi), lo + rng / 3][:n]
    elif kind == "mixed":
        G = [lo.copy(), mid.copy(), hi.copy(), mid - rng / 16, lo + rng / 7, hi - rng / 5][:n]
    elif kind == "interior":
        G = [lo + rng * (0.15 + 0.12 * i) for i in range(n)]
    elif kind == "duplicates":
        a, b = lo + rng * 0.25, lo + rng * 0.7
        G = [a.copy(), a.copy(), b.copy(), a.copy(), b.copy(), mid.copy()][:n]
    elif kind == "tied":
        G = [lo + rng * (0.2 + 0.1 * i) for i in range(n)]
    else:
        raise KeyError(kind)
    while len(G) < n:
        G.append(mid + rng / (8 + len(G)))
    return [np.array(g, dtype=float) for g in G]


class OpWorld:
    """desc: {op, pop, box, obj, maximize, seed, choices}"""

    def __init__(self, desc, deviations=(), shim=None):
        self.desc = desc
        self.choices = desc.get("choices", "R")
        self.maximize = bool(desc.get("maximize", False))
        self.box = box_array(desc.get("box", "B_dec"))
        self.ch = Chooser(deviations)
        self.log = CallLog()
        self.tree = None
        self.monitors = []
        self.shim = shim
        if shim is not None:
            shim.attach(self)
        objname = "const" if desc.get("pop") == "tied" and desc.get("obj") is None else desc.get("obj", "lin_corner")
        self.pure = make_objective(objname, self.box, self.maximize)
        self.fp = FunctionProblem(Recorder(make_objective(objname, self.box, self.maximize), 0, self.log), bounds=self.box.copy(), maximize=self.maximize)
        self.problem = EvalCountingProblem(self.fp)
        self.parents = None
        self.outputs = []

    def horizon_hit(self):
        return False

    def emit(self, kind, tree, info):
        for m in self.monitors:
            m.on(kind, None, info)

    def run_op(self):
        d = self.desc
        np.random.seed(d.get("seed", 1))
        op = d["op"]
        box = self.box
        rng = box[:, 1] - box[:, 0]
        mstd = float(np.mean(rng)) / 4.0
        if op in ("sample_normal", "sample_uniform"):
            G = make_population(d["pop"], box)
            outs = []
            for g in G[:3]:
                f = sample_normal(g, float(np.min(rng)) / 6.0, bounds=box) if op == "sample_normal" else sample_uniform(bounds=box)
                outs.append(f())
            self.emit("op_points", None, {"points": outs, "parents": G})
            return
        G = make_population(d["pop"], box, d.get("n", 6))
        parents = [Individual(g.copy(), self.problem, self.pure(g)) for g in G]
        self.parents = [(np.array(p.genome, copy=True), p.fitness) for p in parents]
        kw = dict(problem=self.problem, mutation_std=mstd, p_mutation=d.get("pmut", 1.0), k_elites=d.get("kelites", 1))
        gens = []
        if op.endswith("_p"):
            op = op[:-2]
            kw["p_mutation"] = 0.5
        if op in ("SEA", "SEAX", "GA", "SEAA", "MWEA"):
            cls = {"SEA": SEA, "SEAX": SEAWithCrossover, "GA": GAStyleSEA, "SEAA": SEAWithAdaptiveMutation, "MWEA": MWEA}[op]
            if op == "MWEA":
                kw.update(election_group_size=4, k_elites=2)
            eng = cls.create(**kw)
            gens.append(eng.run(parents, mutation_std=mstd))
        elif op in ("DE", "DEd"):
            eng = DE(use_dither=(op == "DEd"), crossover_probability=0.9, f=0.8)
            gens.append(eng.run(parents))
        elif op in ("SHADE", "SHADE2"):
            eng = SHADE(3, len(parents))
            gens.append(eng.run(parents))
            if op == "SHADE2":
                gens.append(eng.run(gens[-1]))
                gens.append(eng.run(gens[-1]))
        else:
            pop = Population.from_individuals(parents)
            if op == "gauss":
                out = GaussianMutation(std=mstd, bounds=box, probability=d.get("pmut", 1.0))(pop)
            elif op == "unimut":
                out = UniformMutation(bounds=box, probability=d.get("pmut", 0.5))(pop)
            elif op == "arith":
                out = ArithmeticCrossover(probability=0.7, evaluate_fitness=True)(pop)
            elif op == "tournament":
                out = TournamentSelection()(pop)
            elif op == "binmut":
                out = BinaryMutation(f=0.8)(pop)
                out.evaluate()
            elif op == "binmut_dither":
                out = BinaryMutationWithDither()(pop)
                out.evaluate()
            elif op == "de_cross":
                mut = BinaryMutation(f=0.8)(pop.copy())
                out = Crossover()(pop, mut, 0.9)
                out.evaluate()
            else:
                raise HarnessError(f"unknown op {op}")
            gens.append(out.to_individuals())
            # operators must work on copies: the parent arrays are untouched
            self.emit("op_parent_arrays", None, {"genomes": pop.genomes, "fitnesses": pop.fitnesses})
        self.emit("op_done", None, {"parents": parents, "generations": gens, "op": op})
