"""hmsmc - bounded exhaustive (stateless, deviation-bounded) explorer over the real pyhms code.

pyhms is always imported from /repo's current working tree.
"""
import os

# one BLAS / OpenMP thread per process: the checks parallelise over processes already, linear algebra on 2-30 dimensional
# matrices gains nothing from threads, and spinning worker threads are charged to the per-execution CPU-time cap
for _v in ("OPENBLAS_NUM_THREADS", "OMP_NUM_THREADS", "MKL_NUM_THREADS", "NUMEXPR_NUM_THREADS"):
    os.environ.setdefault(_v, "1")
import sys
import warnings

REPO = os.environ.get("HMSMC_REPO", "/repo")
VERIF = os.path.dirname(os.path.dirname(os.path.abspath(__file__)))

if REPO not in sys.path:
    sys.path.insert(0, REPO)

warnings.filterwarnings("ignore")
os.environ.setdefault("PYTHONWARNINGS", "ignore")
