"""hmsmc - bounded exhaustive (stateless, deviation-bounded) explorer over the real pyhms code.

pyhms is always imported from /repo's current working tree.
"""
import os
import sys
import warnings

REPO = os.environ.get("HMSMC_REPO", "/repo")
VERIF = os.path.dirname(os.path.dirname(os.path.abspath(__file__)))

if REPO not in sys.path:
    sys.path.insert(0, REPO)

warnings.filterwarnings("ignore")
os.environ.setdefault("PYTHONWARNINGS", "ignore")
