"""Shared pieces of the RUN-harness checks: shape alphabets, generic unit runner and replay."""
from __future__ import annotations

import itertools

from .explorer import Execution, Result, explore
from .world import ALL, NONROOT, ROOTS


def shapes_h1():
    return [(r,) for r in ROOTS]


def shapes_h2():
    return [(r, c) for r in ROOTS for c in ALL]


def shapes_h3_cover():
    """196 triples in which every ordered (middle, leaf) pair occurs, the root rotating
    through the 10 root-capable engines."""
    out = []
    k = 0
    for m in ALL:
        for l in ALL:
            out.append((ROOTS[k % len(ROOTS)], m, l))
            k += 1
    return out


def shapes_h3_all():
    return [(r, m, l) for r in ROOTS for m in ALL for l in ALL]


def rep_shapes():
    """28 representative shapes: each engine once as root (where possible) and once as child."""
    out = [(r, ALL[(i * 3 + 1) % len(ALL)]) for i, r in enumerate(ROOTS)]
    out += [(ROOTS[(i * 3) % len(ROOTS)], c) for i, c in enumerate(ALL)]
    out += [("SEA", "DE", "CMAf"), ("DE", "SEA", "LOC"), ("LHS", "SHADE", "SOB"), ("SOB", "CMAw", "DEd")]
    return out


def replay_run(monitor_classes, rep, shim_factory=None, drive=None):
    x = Execution(rep["desc"], rep.get("dev", []), monitor_classes, shim=(shim_factory() if shim_factory else None), drive=drive).run()
    out = list(x.violations)
    if x.status != "ok":
        print(f"execution status: {x.status}: {x.exc}")
    return out


# --------------------------------------------------------------------------------------
# lifecycle exploration (C06, C07, C08, C18): scripted sprouting, G/L/S choices
# --------------------------------------------------------------------------------------

LIFE_SHAPES_Q = [
    ("DE", "DE"), ("SEA", "CMAf"), ("SHADE", "LOC"), ("LHS", "SOB"), ("MWEA", "CMAw"), ("GA", "SHADE"),
    ("DE", "SEA", "DE"), ("SEA", "DE", "CMAf"), ("LHS", "SOB", "DE"), ("SEAX", "CMAs", "LOC"), ("DEd", "SEAA", "SHADE"),
    ("STUB", "DE"), ("DE", "STUBEA"), ("SEA", "STUBEA", "STUB"), ("STUBEA", "STUB", "CMAw"),
    ("SEA", "LOC"), ("DE", "LOC"), ("SOB", "CMAf", "LOC"), ("GA", "CMAs"),
]
FLAT_FOR = {("SEA", "LOC"): "plateau", ("DE", "LOC"): "const", ("SOB", "CMAf", "LOC"): "plateau", ("GA", "CMAs"): "const"}


def baseline_points(desc, monitor_classes=(), shim_factory=None):
    x = Execution(desc, [], monitor_classes, shim=(shim_factory() if shim_factory else None)).run()
    return [list(p) for p in x.w.ch.points] if x.w is not None else []


def split_units(desc, bound, kinds, extra=None, shim_factory=None):
    """Units for one world: the baseline alone, then one unit per first deviation."""
    pts = baseline_points(desc, shim_factory=shim_factory)
    us = [dict(desc=desc, bound=bound, kinds=kinds, start=[], solo=(bound > 0), **(extra or {}))]
    if bound > 0:
        for i, (kind, label, n) in enumerate(pts):
            if kind in kinds:
                for alt in range(1, n):
                    us.append(dict(desc=desc, bound=bound, kinds=kinds, start=[[i, alt]], solo=False, **(extra or {})))
    return us


def lifecycle_descs(tier, seed, hib_values=(False, True), objs=("twofunnel", "plateau", "sphere_in", "const", "tiny_offset"), maximize=(False, True), scale=True):
    s = 1 + seed % 1000
    out = []
    # (a) complete enumeration over L and S choices: small worlds
    small = [("DE", "SEA"), ("SEA", "CMAf")] if tier == "quick" else [("DE", "SEA"), ("SEA", "CMAf"), ("SHADE", "LOC"), ("LHS", "DEd")]
    for eng in small:
        for L in (1, 2):
            for hib in hib_values:
                out.append(("complete", dict(engines=list(eng), gens=1, Mh=3, hib=hib, seed=s, choices="LS",
                                             sprout={"kind": "scripted", "L": L, "default": 1}, obj=objs[0])))
    # (b) deviation-bounded over G, L and S
    shapes = LIFE_SHAPES_Q if tier == "quick" else LIFE_SHAPES_Q + [tuple(x) for x in rep_shapes()]
    k = 0
    lscs = [None, {"kind": "metaepoch", "m": 2}, "allchildren", {"kind": "steadiness", "n": 2, "dev": 0.5}, {"kind": "steadiness", "n": 2, "dev": 0.0}]
    for eng in shapes:
        for hib in hib_values:
            for mx in maximize:
                L = 1 + k % 3
                dl = [None, 1, 2][k % 3]
                lsc = [lscs[(k + j) % len(lscs)] for j in range(len(eng))]
                gsc = [{"kind": "horizon"}, {"kind": "evals", "n": 60}, {"kind": "horizon"}][k % 3]
                out.append(("bounded", dict(engines=list(eng), gens=1 + k % 2, Mh=4, hib=hib, seed=s, choices="GLS", lsc=lsc,
                                            gsc=gsc, maximize=mx, obj=FLAT_FOR.get(tuple(eng), objs[k % len(objs)]), print_at_boundaries=bool(k % 4 == 1),
                                            sprout={"kind": "scripted", "L": L, "default": 1 + (k % 2), "demelimit": dl})))
                k += 1
    # 'stop only on exact steadiness' (max_deviation = 0.0) on objectives whose values differ in the last digits only
    for j, eng in enumerate([("SEA", "DE"), ("DE", "SEA", "CMAf"), ("SHADE", "GA")]):
        out.append(("bounded", dict(engines=list(eng), gens=1, Mh=5, hib=False, seed=s + j, choices="GLS", lsc=[{"kind": "steadiness", "n": 2, "dev": 0.0}] * len(eng),
                                    gsc={"kind": "horizon"}, maximize=bool(j % 2), obj="tiny_offset", sprout={"kind": "scripted", "L": 2, "default": 1})))
    # children sampled with spread 0 (a degenerate initial population: every member is the seed itself)
    for j, eng in enumerate([("SEA", "DE"), ("DE", "SHADE", "SEA"), ("LHS", "DEd"), ("GA", "SEAX", "MWEA")]):
        out.append(("bounded", dict(engines=list(eng), gens=1 + j % 2, Mh=4, hib=bool(j % 2), seed=s + j, choices="GLS", lsc=[None] + [{"kind": "metaepoch", "m": 2}] * (len(eng) - 1),
                                    gsc={"kind": "horizon"}, maximize=bool(j % 2), obj=("twofunnel", "sphere_in")[j % 2], box=("B_asym", "B_sym")[j % 2], std_factor=0.0,
                                    sprout={"kind": "scripted", "L": 2, "default": 1})))
    # middle-level demes that stop when all their children have stopped, several siblings per level
    for j, eng in enumerate([("SEA", "DE", "CMAf"), ("DE", "SEA", "SHADE"), ("LHS", "GA", "DE")]):
        for hib in hib_values:
            out.append(("bounded", dict(engines=list(eng), gens=1, Mh=6, hib=hib, seed=s + j, choices="GLS", lsc=[None, "allchildren", {"kind": "metaepoch", "m": 1 + j % 2}],
                                        gsc={"kind": "horizon"}, maximize=bool(j % 2), obj="twofunnel", sprout={"kind": "scripted", "L": 2, "default": 1})))
    # a CMA-ES middle level on an objective whose optimum is a corner of the box: its best individuals sit exactly on faces, and
    # they are the seeds of population-based children; a generator that lists the parents in another order than level by level
    for j, eng in enumerate([("SEA", "CMAf", "SEA"), ("DE", "CMAw", "GA"), ("LHS", "CMAs", "DE"), ("SEA", "CMAf", "SHADE"), ("SEA", "DE", "SEA"), ("DE", "SEA", "DE")]):
        out.append(("bounded", dict(engines=list(eng), gens=2, Mh=5, hib=bool(j % 2), seed=s + j, choices="GLS", lsc=[None, None, {"kind": "metaepoch", "m": 1 + j % 2}],
                                    gsc={"kind": "horizon"}, maximize=bool(j % 2), obj="lin_corner", box=("B_asym", "B_sym")[j % 2], gen_order=("reverse", "interleave")[j % 2],
                                    sprout={"kind": "scripted", "L": 2, "default": 1})))
    # bounds given as an INTEGER array (as in the library's own tests)
    for j, eng in enumerate([("SEA", "SEA"), ("DE", "SEAX", "GA"), ("LHS", "DE"), ("SEA", "CMAf")]):
        out.append(("bounded", dict(engines=list(eng), gens=1 + j % 2, Mh=4, hib=bool(j % 2), seed=s + j, choices="GLS", lsc=[None] + [{"kind": "metaepoch", "m": 2}] * (len(eng) - 1),
                                    gsc={"kind": "horizon"}, maximize=bool(j % 2), obj=("twofunnel", "sphere_in")[j % 2], box="B_int", int_bounds=True,
                                    sprout={"kind": "scripted", "L": 2, "default": 1})))
    # more than ten children of one parent (ids with two digits), no deviations
    for j, eng in enumerate([("SEA", "DE"), ("DE", "SEA", "SHADE"), ("LHS", "CMAf")]):
        out.append(("bounded", dict(engines=list(eng), gens=1, Mh=13, hib=bool(j % 2), seed=s + j, choices="", lsc=[None] + [{"kind": "metaepoch", "m": 1}] * (len(eng) - 1),
                                    gsc={"kind": "horizon"}, maximize=bool(j % 2), obj="twofunnel", sprout={"kind": "scripted", "L": 1, "default": 1})))
    # (kept last: worlds of other dimensions must not be the first thing a worker process sees)
    # one-dimensional and five-dimensional problems; MWEA election group as large as the population
    for j, (eng, box) in enumerate([(("SEA", "DE"), "B_1d"), (("DE", "SHADE", "LOC"), "B_1d"), (("LHS", "GA"), "B_1d"), (("SEA", "CMAf"), "B_5d"), (("SHADE", "CMAw", "DE"), "B_5d"),
                                    (("MWEA", "SEAX"), "B_5d"), (("MWEA", "DE"), "B_asym")]):
        out.append(("bounded", dict(engines=list(eng), gens=1 + j % 2, Mh=4, hib=bool(j % 2), seed=s + j, choices="GLS", lsc=[None] + [{"kind": "metaepoch", "m": 2}] * (len(eng) - 1),
                                    gsc={"kind": "horizon"}, maximize=bool(j % 2), obj=("twofunnel", "sphere_in", "plateau")[j % 3], box=box, mwea_group=6 if box == "B_asym" else 4,
                                    sprout={"kind": "scripted", "L": 2, "default": 1})))
    # every other world: the (user-written) stop conditions answer numpy.bool_ / int instead of bool
    for k, (_, d) in enumerate(out):
        if k % 2:
            d["verdict_type"] = ("npbool", "int")[(k // 2) % 2]
    if scale:
        # worlds beyond the small scope (run once each, no deviations): see hmsmc/scale.py
        from .scale import lifecycle_scale_worlds

        out += lifecycle_scale_worlds(tier, seed)
    return out


def mechanism_descs(tier, seed):
    """Worlds with the shipped and user-composed sprout mechanisms (real generators, real filters)."""
    s = 1 + seed % 1000
    shapes = [("SEA", "DE"), ("DE", "CMAf"), ("SHADE", "SEAX"), ("LHS", "SOB"), ("SEA", "DE", "CMAf"), ("DE", "SEA", "LOC"), ("GA", "CMAw", "LOC"), ("SEAA", "SHADE", "DE"),
              ("MWEA", "DEd"), ("SOB", "SEA", "SHADE")]
    if tier == "thorough":
        shapes += [tuple(x) for x in rep_shapes()]
    mechs = [
        {"kind": "simple"}, {"kind": "nbc"}, {"kind": "nbclocal"},
        {"kind": "composed", "gen": {"kind": "nbc", "factor": 2.0, "trunc": 1.0}, "deme_chain": [{"kind": "demelimit", "limit": 2}],
         "tree_chain": [{"kind": "levellimit"}, {"kind": "skipsame"}]},
        {"kind": "composed", "gen": {"kind": "best"}, "deme_chain": [], "tree_chain": [{"kind": "skipsame"}, {"kind": "levellimit"}]},
        {"kind": "composed", "gen": {"kind": "nbc", "factor": 1.0, "trunc": 0.7}, "deme_chain": [{"kind": "nbcfar", "factor": 0.5, "only_active": True}],
         "tree_chain": [{"kind": "levellimit"}]},
    ]
    out = []
    k = 0
    lscs = [None, {"kind": "metaepoch", "m": 2}, "allchildren", {"kind": "steadiness", "n": 2, "dev": 0.5}]
    for eng in shapes:
        for mi, m in enumerate(mechs):
            if m["kind"] == "nbclocal" and len(eng) < 3:
                continue
            k += 1
            L = 1 + k % 3
            sp = dict(m, L=L)
            if "tree_chain" in sp:
                sp["tree_chain"] = [dict(f, limit=L) if f["kind"] == "levellimit" else f for f in sp["tree_chain"]]
            out.append(dict(engines=list(eng), gens=1 + k % 2, Mh=5, hib=bool(k % 2), seed=s + k % 2, choices="GL", maximize=bool((k // 2) % 2),
                            lsc=[None] + [lscs[(k + j) % len(lscs)] for j in range(1, len(eng))], sprout=sp,
                            obj=("twofunnel", "sphere_in", "plateau", "tiny_offset")[k % 4], box=("B_asym", "B_sym")[k % 2], print_at_boundaries=bool(k % 3 == 0)))
    # a local-search MIDDLE level under the local-method generator (which offers the result of a just-finished search): on an
    # objective whose optimum is a corner of the box the seeds of the population-based grandchildren lie exactly on faces
    for j, eng in enumerate([("SEA", "LOC", "SEA"), ("DE", "LOC", "GA"), ("LHS", "LOC", "DE"), ("SEA", "LOC", "SHADE"), ("SEAX", "LOC", "SEAX")]):
        out.append(dict(engines=list(eng), gens=1, Mh=5, hib=bool(j % 2), seed=s + j, choices="GL", maximize=bool(j % 2), lsc=[None, None, {"kind": "metaepoch", "m": 2}],
                        sprout={"kind": "nbclocal", "L": 2, "gen": 1.0, "trunc": 1.0, "fil": 0.0}, obj="lin_corner", box=("B_asym", "B_sym")[j % 2], loc_maxiter=60))
    return out


def reuse_sequences(tier, seed):
    """Pairs of worlds built from the SAME mechanism / stop-condition objects (second tree after a first one)."""
    seqs = []
    md = mechanism_descs(tier, seed)
    for i in range(0, len(md) - 1, 2 if tier == "quick" else 1):
        a = dict(md[i], choices="", reuse_components=True)
        b = dict(a, seed=a["seed"] + 5)
        c = dict(a, seed=a["seed"] + 9, maximize=not a.get("maximize", False))
        seqs.append([a, b, c])
    return seqs


def lifecycle_units(tier, seed, mechanisms=True, **kw):
    us = []
    b = 2 if tier == "quick" else 3
    for mode, desc in lifecycle_descs(tier, seed, **kw):
        if mode == "complete":
            us += split_units(desc, 99, "LS", {"mode": mode})
        else:
            us += split_units(desc, min(b, desc.get("max_bound", b)), "GLS", {"mode": mode})
    if mechanisms:
        for desc in mechanism_descs(tier, seed):
            us += split_units(desc, 1 if tier == "quick" else 2, "GL", {"mode": "mechanism"})
        for seq in reuse_sequences(tier, seed):
            us.append({"kind": "sequence", "descs": seq})
    return us


def run_split_unit(check_id, unit, monitor_classes, nontrivial_rule=None, drive=None, shim_factory=None):
    res = Result()
    explore(res, check_id, {k: v for k, v in unit.items() if k != "desc"}, unit["desc"], monitor_classes,
            bound=unit["bound"], kinds=unit["kinds"], start=unit["start"], solo=unit["solo"],
            nontrivial_rule=nontrivial_rule, drive=drive, shim_factory=shim_factory)
    return res


# --------------------------------------------------------------------------------------
# boundary worlds (C01, C02, C03, C04, C20) and minimize() budgets
# --------------------------------------------------------------------------------------


def chunks(lst, n):
    return [lst[i : i + n] for i in range(0, len(lst), n)]


def run_descs(res, check_id, unit, descs, monitor_classes, nontrivial_rule=None, bound=0, kinds=None, shim_factory=None, drive=None):
    for desc in descs:
        if res.status["aborted"] >= 4:
            # runaway executions (endless loops inside the library) in several worlds of this unit: the rest is not explored
            res.capped = True
            res.notes["unit cut short after runaway executions"] += 1
            break
        explore(res, check_id, {k: v for k, v in unit.items() if k != "descs"}, desc, monitor_classes, bound=bound,
                kinds=kinds, nontrivial_rule=nontrivial_rule, shim_factory=shim_factory, drive=drive)
    return res


class CountingFun:
    def __init__(self, f):
        self.f = f
        self.calls = []
        self.vals = []

    def __call__(self, x):
        import numpy as np

        v = self.f(x)
        self.calls.append(np.array(x, dtype=float, copy=True).tobytes())
        self.vals.append(v)
        return v


def minimize_run(boxname, objname, seed, **kw):
    from pyhms import minimize

    from .world import box_array, make_objective

    box = box_array(boxname)
    cf = CountingFun(make_objective(objname, box, False))
    r = minimize(cf, box, seed=seed, **kw)
    return cf, r
