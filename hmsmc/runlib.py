"""Shared pieces of the RUN-harness checks: shape alphabets, generic unit runner and replay."""
from __future__ import annotations

import itertools

from .explorer import Execution, Result, explore
from .world import ALL, NONROOT, ROOTS


def shapes_h1():
    return [(r,) for r in ROOTS]


def shapes_h2():
    return [(r, c) for r in ROOTS for c in ALL]


def shapes_h3_cover():
    """196 triples in which every ordered (middle, leaf) pair occurs, the root rotating
    through the 10 root-capable engines."""
    out = []
    k = 0
    for m in ALL:
        for l in ALL:
            out.append((ROOTS[k % len(ROOTS)], m, l))
            k += 1
    return out


def shapes_h3_all():
    return [(r, m, l) for r in ROOTS for m in ALL for l in ALL]


def rep_shapes():
    """28 representative shapes: each engine once as root (where possible) and once as child."""
    out = [(r, ALL[(i * 3 + 1) % len(ALL)]) for i, r in enumerate(ROOTS)]
    out += [(ROOTS[(i * 3) % len(ROOTS)], c) for i, c in enumerate(ALL)]
    out += [("SEA", "DE", "CMAf"), ("DE", "SEA", "LOC"), ("LHS", "SHADE", "SOB"), ("SOB", "CMAw", "DEd")]
    return out


def replay_run(monitor_classes, rep, shim_factory=None, drive=None):
    x = Execution(rep["desc"], rep.get("dev", []), monitor_classes, shim=(shim_factory() if shim_factory else None), drive=drive).run()
    out = list(x.violations)
    if x.status != "ok":
        print(f"execution status: {x.status}: {x.exc}")
    return out
