"""Evidence files, replay artefacts, known findings, exit codes."""
from __future__ import annotations

import hashlib
import json
import os
import re
import time

import numpy as np

from . import VERIF

KNOWN_FINDINGS = os.path.join(VERIF, "known_findings.json")


def jsonable(o):
    if isinstance(o, dict):
        return {str(k): jsonable(v) for k, v in o.items()}
    if isinstance(o, (list, tuple, set, frozenset)):
        return [jsonable(v) for v in o]
    if isinstance(o, np.ndarray):
        return [jsonable(v) for v in o.tolist()]
    if isinstance(o, (np.floating, float)):
        f = float(o)
        if f != f or f in (float("inf"), float("-inf")):
            return repr(f)
        return f
    if isinstance(o, (np.integer,)):
        return int(o)
    if isinstance(o, (np.bool_,)):
        return bool(o)
    if isinstance(o, bytes):
        return o.hex()
    if o is None or isinstance(o, (str, int, bool)):
        return o
    return repr(o)


def load_known(property_id):
    """Open findings of this property: list of dict(signature (regex), what)."""
    try:
        with open(KNOWN_FINDINGS) as f:
            data = json.load(f)
    except FileNotFoundError:
        return []
    return [e for e in data.get("findings", []) if e.get("property") == property_id and e.get("status") == "open"]


def write_replay(property_id, viol):
    d = os.path.join(VERIF, "replays", property_id)
    os.makedirs(d, exist_ok=True)
    body = jsonable(
        {
            "property": property_id,
            "signature": viol["sig"],
            "message": viol["msg"],
            "detail": viol.get("detail"),
            "replay": viol.get("replay"),
        }
    )
    txt = json.dumps(body, indent=1, sort_keys=True)
    name = hashlib.sha256(txt.encode()).hexdigest()[:16] + ".json"
    path = os.path.join(d, name)
    with open(path, "w") as f:
        f.write(txt)
    return path


def conclude(property_id, tier, seed, coverage, assumptions, violations, viol_counts, wall_s, level="model_checking"):
    """Classify violations against the known-findings file, write replays and the evidence
    file, print the protocol lines and return the exit code."""
    known = load_known(property_id)
    unknown = []
    known_seen = {}
    for v in violations:
        hit = None
        for k in known:
            if re.search(k["signature"], v["sig"]):
                hit = k
                break
        if hit is not None:
            known_seen.setdefault(hit["signature"], (hit, v))
        else:
            unknown.append(v)
    for sig, (k, v) in known_seen.items():
        print(f"KNOWN-FINDING: property={property_id} {k['what']} [signature {v['sig']}; seen {viol_counts.get(v['sig'], 1)}x]")
    replay_paths = []
    seen_sigs = set()
    for v in unknown:
        path = write_replay(property_id, v)
        if path in replay_paths:
            continue
        replay_paths.append(path)
        if v["sig"] not in seen_sigs:
            print(f"# {property_id} {v['sig']}: {v['msg']} ({viol_counts.get(v['sig'], 1)}x)")
            seen_sigs.add(v["sig"])
        print(f"VIOLATION property={property_id} replay={path}")
    n_unknown = sum(c for s, c in viol_counts.items() if not any(re.search(k["signature"], s) for k in known))
    coverage = dict(coverage)
    coverage["violation_signatures"] = {s: int(c) for s, c in viol_counts.items()}
    coverage["known_findings_seen"] = sorted(known_seen)
    ev = {
        "property_id": property_id,
        "tier": tier,
        "seed": int(seed),
        "level": level,
        "coverage": jsonable(coverage),
        "assumptions": list(assumptions),
        "wall_s": round(float(wall_s), 3),
        "violations": int(n_unknown),
    }
    os.makedirs(os.path.join(VERIF, "evidence"), exist_ok=True)
    with open(os.path.join(VERIF, "evidence", f"{property_id}.json"), "w") as f:
        json.dump(ev, f, indent=1, sort_keys=True)
        f.write("\n")
    return 1 if unknown else 0
