"""Command line: python -m hmsmc check C05 [--tier quick|thorough] | replay <path> | selftest"""
from __future__ import annotations

import argparse
import importlib
import json
import multiprocessing as mp
import os
import sys
import time
import traceback

from . import VERIF
from .explorer import Result, Vacuous
from .report import conclude, jsonable


def load_check(pid):
    return importlib.import_module(f"hmsmc.checks.{pid.lower()}")


_CHECK = None
ABORT_LIMIT = 48


def _init(pid):
    global _CHECK
    _CHECK = load_check(pid)


def _fresh(unit):
    """Run one unit in a brand-new interpreter (no world has ever run there): for oracles about process-wide state."""
    import pickle
    import subprocess
    import tempfile

    with tempfile.TemporaryDirectory(prefix="hmsmc_sub_") as td:
        fin, fout = os.path.join(td, "unit.pkl"), os.path.join(td, "result.pkl")
        with open(fin, "wb") as f:
            pickle.dump(unit, f)
        env = dict(os.environ, HMSMC_SUBUNIT="1")
        out = subprocess.run([sys.executable, "-m", "hmsmc", "subunit", _CHECK.ID, fin, fout], env=env, cwd=VERIF, capture_output=True, text=True, timeout=3000)
        if out.returncode != 0 or not os.path.exists(fout):
            raise RuntimeError(f"sub-interpreter failed (rc={out.returncode}): {out.stderr[-1500:]}")
        with open(fout, "rb") as f:
            return pickle.load(f)


def _work(unit):
    try:
        if unit.get("fresh_process") and not os.environ.get("HMSMC_SUBUNIT"):
            return ("ok", _fresh(unit))
        return ("ok", _CHECK.run_unit(unit))
    except Exception as e:
        return ("err", f"unit {unit!r}: {traceback.format_exc()}")


def run_subunit(pid, fin, fout):
    import pickle

    chk = load_check(pid)
    with open(fin, "rb") as f:
        unit = pickle.load(f)
    res = chk.run_unit(unit)
    with open(fout, "wb") as f:
        pickle.dump(res, f)
    return 0


def run_check(pid, tier, jobs):
    seed = int(os.environ.get("VERIF_SEED", "0") or 0)
    t0 = time.time()
    chk = load_check(pid)
    # units() runs baseline executions to find the choice points: do that in a throw-away child, so that the
    # workers are forked from a parent in which no world has ever run
    with mp.get_context("fork").Pool(1) as p0:
        units = p0.apply(chk.units, (tier, seed))
    res = Result()
    errors = []
    if jobs <= 1 or len(units) <= 1:
        _init(pid)
        outs = map(_work, units)
        pool = None
    else:
        ctx = mp.get_context("fork")
        pool = ctx.Pool(min(jobs, len(units)), initializer=_init, initargs=(pid,))
        outs = pool.imap_unordered(_work, units, chunksize=1)
    cut_short = False
    for st, r in outs:
        if st == "ok":
            res.merge(r)
        else:
            errors.append(r)
        if res.status["aborted"] >= ABORT_LIMIT:
            # the library runs away (endless loops) in execution after execution: every one of them costs the full
            # per-execution CPU cap, so the remaining units are dropped and the run is reported as capped
            cut_short = True
            res.capped = True
            break
    if pool is not None:
        if cut_short:
            pool.terminate()
        else:
            pool.close()
        pool.join()
    if cut_short:
        print(f"HARNESS-NOTE {pid}: {res.status['aborted']} executions hit the per-execution CPU cap (runaway loops inside the library); remaining units dropped", file=sys.stderr)
    if errors:
        print(f"HARNESS-ERROR {pid}: {len(errors)} unit(s) failed in the harness itself", file=sys.stderr)
        print(errors[0], file=sys.stderr)
        return 3
    wall = time.time() - t0
    vacuous = None
    try:
        extra = chk.finish(res, tier) or {}
    except Vacuous as e:
        # violations that were observed stand and are reported; only a run without any is a pure harness error
        vacuous = str(e)
        extra = {"vacuity_guard": vacuous, "exhaustive": False}
        if not res.violations:
            print(f"HARNESS-ERROR {pid}: vacuous exploration: {e}", file=sys.stderr)
            if res.status.get("exception") and res.exceptions:
                ex = res.exceptions[0]
                print(f"HARNESS-NOTE {pid}: {res.status['exception']} execution(s) ended with an exception, first: {ex['exc']} in world {json.dumps(jsonable(ex['desc']))[:300]} dev={ex['dev']}", file=sys.stderr)
            return 3
    exhaustive = bool(
        extra.pop("exhaustive", True)
        and not res.capped
        and res.replay_mismatches == 0
        and res.prefix_mismatches == 0
    )
    coverage = {
        "states": len(res.states),
        "transitions": len(res.transitions),
        "traces_validated_against_impl": res.executions,
        "evaluations": res.executions,
        "distinct_nontrivial": len(res.nontrivial),
        "rule": chk.RULE,
        "samples": res.samples[:4],
        "exhaustive": exhaustive,
        "units": len(units),
        "configurations": res.configs,
        "configurations_with_a_completed_execution": res.configs_completed,
        "choice_points_visited": res.points,
        "executions_by_number_of_deviations": {str(k): v for k, v in sorted(res.by_bound.items())},
        "deviations_by_kind": dict(res.dev_kinds),
        "distinct_outcomes": len(res.outcomes),
        "execution_status": dict(res.status),
        "horizon_hits": res.horizon_hits,
        "replay_audits": res.replay_audits,
        "replay_mismatches": res.replay_mismatches,
        "prefix_divergences": res.prefix_mismatches,
        "coverage_flags": dict(res.flags),
        "notes": dict(res.notes),
        "exceptions_sample": res.exceptions[:2],
        "cpu_s_in_workers": round(res.wall, 1),
        "explanation": getattr(chk, "EXPLANATION", ""),
        "beyond_the_small_scope": "in addition to the exploration described under 'rule', the scale worlds / large cases of hmsmc/scale.py and DESIGN.md 11.8 "
        "(populations of 100-150, dimension 12-30, dozens to hundreds of demes, tens of thousands of evaluations) are run ONCE each without deviations; "
        "'exhaustive' refers to the bounded exploration, not to them",
    }
    coverage.update(extra)
    rc = conclude(pid, tier, seed, coverage, chk.ASSUMPTIONS, res.violations, res.viol_counts, wall)
    if vacuous is not None:
        print(f"HARNESS-NOTE {pid}: coverage guard not met: {vacuous}", file=sys.stderr)
        if rc == 0:
            rc = 3
    if res.status.get("exception") and res.exceptions:
        e = res.exceptions[0]
        print(f"HARNESS-NOTE {pid}: {res.status['exception']} execution(s) ended with an exception, first: {e['exc']} in world {json.dumps(jsonable(e['desc']))[:300]} dev={e['dev']}", file=sys.stderr)
    print(
        f"{pid} {tier}: executions={res.executions} states={len(res.states)} transitions={len(res.transitions)} "
        f"outcomes={len(res.outcomes)} nontrivial={len(res.nontrivial)} status={dict(res.status)} "
        f"violations={sum(res.viol_counts.values())} wall={wall:.1f}s exhaustive={exhaustive}"
    )
    return rc


def run_replay(path):
    with open(path) as f:
        rec = json.load(f)
    chk = load_check(rec["property"])
    out = chk.replay(rec["replay"])
    hit = [v for v in out if v["sig"] == rec["signature"]]
    for v in out:
        print(f"{v['sig']}: {v['msg']}")
        print(json.dumps(jsonable(v.get("detail")), indent=1)[:2000])
    if hit:
        print(f"REPRODUCED property={rec['property']} signature={rec['signature']}")
        return 1
    print("not reproduced")
    return 0


def main(argv=None):
    ap = argparse.ArgumentParser(prog="hmsmc")
    sub = ap.add_subparsers(dest="cmd", required=True)
    c = sub.add_parser("check")
    c.add_argument("pid")
    c.add_argument("--tier", default=os.environ.get("VERIF_TIER") or "quick")
    c.add_argument("--jobs", type=int, default=int(os.environ.get("HMSMC_JOBS", "0")) or (os.cpu_count() or 4))
    r = sub.add_parser("replay")
    r.add_argument("path")
    sub.add_parser("selftest")
    su = sub.add_parser("subunit")
    su.add_argument("pid")
    su.add_argument("fin")
    su.add_argument("fout")
    a = ap.parse_args(argv)
    if a.cmd == "subunit":
        return run_subunit(a.pid.upper(), a.fin, a.fout)
    if a.cmd == "check":
        tier = a.tier if a.tier in ("quick", "thorough") else "quick"
        return run_check(a.pid.upper(), tier, a.jobs)
    if a.cmd == "replay":
        return run_replay(a.path)
    if a.cmd == "selftest":
        from .selftest import selftest

        return selftest()


if __name__ == "__main__":
    sys.exit(main())
