#!/bin/bash
# runs every quick check for several VERIF_SEED values; prints anything that is not silent
cd "$(dirname "$0")/.."
for sd in "$@"; do
  for c in C01 C02 C03 C04 C05 C06 C07 C08 C09 C10 C11 C12 C13 C14 C15 C16 C17 C18 C19 C20; do
    out=$(VERIF_SEED=$sd PYTHONHASHSEED=0 /venv/bin/python -m hmsmc check $c --tier ${TIER:-quick} 2>&1); rc=$?
    echo "seed=$sd $c rc=$rc $(echo "$out" | grep -E "^C[0-9]+ (quick|thorough)" | sed 's/.*violations=/violations=/')"
    if [ $rc -ne 0 ]; then echo "$out" | grep -E "^#|VIOLATION|HARNESS" | head -8; fi
  done
done
