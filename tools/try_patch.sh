#!/bin/bash
# usage: tools/try_patch.sh <patch.diff> <C05> [C06 ...]   -- applies to /repo, runs quick checks, always reverts
set -u
P="$1"; shift
cd /repo || exit 2
if ! git diff --quiet; then echo "/repo dirty, refusing"; exit 2; fi
git apply "$P" || { echo "patch does not apply"; exit 2; }
trap 'git -C /repo checkout -- . ; git -C /repo clean -fdq -- pyhms >/dev/null 2>&1' EXIT
cd /verif
for c in "$@"; do
  echo "=== $c on $(basename $(dirname $P))/$(basename $P)"
  PYTHONHASHSEED=0 timeout 1500 /venv/bin/python -m hmsmc check "$c" --tier ${TIER:-quick} 2>&1 | grep -E "^(VIOLATION|KNOWN|#|HARNESS|C[0-9]+ )" | awk '{c[$1]++; if (c[$1]<=6) print}' 
  echo "exit=${PIPESTATUS[0]}"
done
