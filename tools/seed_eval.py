#!/usr/bin/env python3
"""usage: seed_eval.py <mutant-dir> <property> <check> [<check> ...] [--tier quick]
Confirms a seeded change (tests still pass, demo fails with it / passes without it, in a scratch worktree),
runs the named checks against it in /repo (apply, run, revert) and archives everything under /verif/seeded/<name>/."""
import json, os, re, shutil, subprocess, sys, time
V = os.path.dirname(os.path.dirname(os.path.abspath(__file__)))
args = [a for a in sys.argv[1:] if not a.startswith("--")]
tier = "thorough" if "--thorough" in sys.argv else "quick"
D, prop, checks = os.path.abspath(args[0]), args[1], args[2:]
name = os.path.basename(D)
def sh(cmd, **kw):
    return subprocess.run(cmd, shell=True, capture_output=True, text=True, **kw)
assert sh("git -C /repo diff --quiet").returncode == 0, "/repo dirty"
head = sh("git -C /repo rev-parse --short HEAD").stdout.strip()
wt = f"/tmp/wt/seed_{name}"
sh(f"git -C /repo worktree remove --force {wt}"); sh("git -C /repo worktree prune")
assert sh(f"git -C /repo worktree add --detach {wt} HEAD -q").returncode == 0
meta = {"name": name, "breaks_property": prop, "repo_commit": head, "confirmed_at": time.strftime("%Y-%m-%d %H:%M:%S")}
try:
    r = sh(f"git apply {D}/patch.diff", cwd=wt)
    if r.returncode != 0:
        print("patch does not apply:", r.stderr); sys.exit(2)
    t = sh("/venv/bin/python -m pytest -q -p no:cacheprovider --timeout=900 2>&1 | tail -1", cwd=wt).stdout.strip()
    demo = next(f for f in sorted(os.listdir(D)) if f.endswith(".py"))
    env = dict(os.environ, PYTHONPATH=wt)
    w = subprocess.run(["/venv/bin/python", os.path.join(D, demo)], cwd=wt, env=env, capture_output=True, text=True, timeout=900)
    sh("git checkout -q -- . && git clean -fdq", cwd=wt)
    wo = subprocess.run(["/venv/bin/python", os.path.join(D, demo)], cwd=wt, env=env, capture_output=True, text=True, timeout=900)
    meta["existing_tests_with_change"] = t
    meta["demo"] = {"file": demo, "exit_with_change": w.returncode, "exit_without_change": wo.returncode, "output_with_change_tail": w.stdout.strip().splitlines()[-3:]}
    print("tests:", t, "| demo with:", w.returncode, "without:", wo.returncode)
finally:
    sh(f"git -C /repo worktree remove --force {wt}"); sh("git -C /repo worktree prune")
confirmed = ("passed" in t and "failed" not in t and w.returncode != 0 and wo.returncode == 0)
meta["confirmed"] = confirmed
det = {}
assert sh("git -C /repo apply " + D + "/patch.diff").returncode == 0
try:
    for c in checks:
        r = sh(f"PYTHONHASHSEED=0 timeout 3000 /venv/bin/python -m hmsmc check {c} --tier {tier}", cwd=V)
        sigs = re.findall(r"^# (\S+) (\S+): (.*)$", r.stdout, re.M)
        det[c] = {"exit": r.returncode, "violation_lines": len(re.findall(r"^VIOLATION", r.stdout, re.M)),
                  "signatures": [s[1] for s in sigs][:12], "first_message": (sigs[0][2][:300] if sigs else None), "tier": tier}
        print(c, "exit", r.returncode, [s[1] for s in sigs][:6])
finally:
    sh("git -C /repo checkout -- . && git -C /repo clean -fdq -- pyhms")
meta["checks_run_against_it"] = det
meta["detected_by"] = [c for c, v in det.items() if v["exit"] == 1]
notes = open(os.path.join(D, "notes.md")).read() if os.path.exists(os.path.join(D, "notes.md")) else ""
meta["needs_to_manifest"] = notes.strip()[:1500]
meta["what_was_run"] = [f"scratch worktree of /repo@{head}: git apply patch.diff; /venv/bin/python -m pytest -q -p no:cacheprovider --timeout=900; PYTHONPATH=<worktree> python {demo} (with / without the change)",
                        f"git -C /repo apply patch.diff; PYTHONHASHSEED=0 /venv/bin/python -m hmsmc check <C> --tier {tier}; git -C /repo checkout -- ."]
out = os.path.join(V, "seeded", name)
if confirmed:
    os.makedirs(out, exist_ok=True)
    for f in os.listdir(D):
        if f.endswith((".diff", ".py", ".md")):
            shutil.copy(os.path.join(D, f), out)
    old = {}
    if os.path.exists(os.path.join(out, "meta.json")):
        old = json.load(open(os.path.join(out, "meta.json")))
        meta["history"] = old.get("history", []) + [{k: old.get(k) for k in ("confirmed_at", "repo_commit", "detected_by")}]
    json.dump(meta, open(os.path.join(out, "meta.json"), "w"), indent=1)
    print("archived", out, "detected_by", meta["detected_by"])
else:
    print("NOT CONFIRMED", meta)
