#!/usr/bin/env python3
"""usage: mkmut.py <out.diff> <file> <old> <new> [<file> <old> <new> ...]  -- makes a patch against /repo HEAD without leaving changes"""
import subprocess,sys
out=sys.argv[1]; a=sys.argv[2:]
assert subprocess.run(['git','-C','/repo','diff','--quiet']).returncode==0, "/repo dirty"
try:
    for i in range(0,len(a),3):
        p='/repo/'+a[i]; s=open(p).read(); assert s.count(a[i+1])==1,(a[i],s.count(a[i+1])); open(p,'w').write(s.replace(a[i+1],a[i+2]))
    d=subprocess.check_output(['git','-C','/repo','diff']).decode(); open(out,'w').write(d); print(d)
finally:
    subprocess.run(['git','-C','/repo','checkout','--','.'])
