#!/bin/bash
# usage: tools/eval_mutant.sh <mutant-dir> <C05> [more checks]   -- confirms the mutant (tests pass, demo fails with / passes without), then runs the checks against it
set -u
D="$1"; shift
N=$(basename "$D")
WT=/tmp/wt/eval_$N
git -C /repo worktree add --detach "$WT" HEAD -q || exit 2
cleanup() { git -C /repo worktree remove --force "$WT" 2>/dev/null; git -C /repo worktree prune; }
trap cleanup EXIT
cd "$WT"
if ! git apply "$D/patch.diff"; then echo "RESULT $N: patch does not apply to HEAD"; exit 2; fi
T=$(/venv/bin/python -m pytest -q -p no:cacheprovider --timeout=900 2>&1 | tail -1)
echo "tests with patch: $T"
DEMO=$(ls "$D"/demo*.py "$D"/test_*.py 2>/dev/null | head -1)
PYTHONPATH="$WT" timeout 600 /venv/bin/python "$DEMO" > /tmp/wt/eval_$N.with.log 2>&1; W=$?
git checkout -q -- . ; git clean -fdq
PYTHONPATH="$WT" timeout 600 /venv/bin/python "$DEMO" > /tmp/wt/eval_$N.without.log 2>&1; WO=$?
echo "demo exit with patch: $W   without: $WO"
tail -3 /tmp/wt/eval_$N.with.log
cd /verif
cleanup; trap - EXIT
TIER=${TIER:-quick} /verif/tools/try_patch.sh "$D/patch.diff" "$@"
