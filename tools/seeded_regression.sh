#!/bin/bash
# Re-runs every archived seeded change against the check(s) that reported it, in a scratch worktree
# (HMSMC_REPO), and prints one line per change. usage: tools/seeded_regression.sh [pattern]
WT=/tmp/wt/regress
git -C /repo worktree remove --force $WT 2>/dev/null; git -C /repo worktree prune
git -C /repo worktree add --detach $WT HEAD -q || exit 2
cd /verif
for d in seeded/${1:-*}/; do
  n=$(basename $d)
  checks=$(/venv/bin/python -c "import json;m=json.load(open('$d/meta.json'));print(' '.join(m['detected_by']))")
  [ -z "$checks" ] && { echo "$n SKIP (not detected by any check)"; continue; }
  if ! git -C $WT apply $PWD/$d/patch.diff 2>/dev/null; then echo "$n PATCH-DOES-NOT-APPLY"; continue; fi
  for c in $checks; do
    out=$(mktemp -d); 
    HMSMC_REPO=$WT PYTHONHASHSEED=0 timeout 1800 /venv/bin/python -m hmsmc check $c --tier quick > $out/log 2>&1; rc=$?
    echo "$n $c rc=$rc $(grep -c '^VIOLATION' $out/log) violation lines"
    rm -rf $out
  done
  git -C $WT checkout -q -- . ; git -C $WT clean -fdq
done
git -C /repo worktree remove --force $WT
