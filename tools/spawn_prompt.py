#!/usr/bin/env python3
"""usage: spawn_prompt.py C05 2  -> creates worktree /tmp/wt/C05_x and prints the agent prompt"""
import json,sys,subprocess,os
pid=sys.argv[1]; n=sys.argv[2]; tag=sys.argv[3] if len(sys.argv)>3 else 'a'
wt=f"/tmp/wt/{pid}_{tag}"
if not os.path.exists(wt):
    subprocess.check_call(['git','-C','/repo','worktree','add','--detach',wt,'HEAD','-q'])
for l in open('/verif/properties.jsonl'):
    p=json.loads(l)
    if p['id']==pid: break
t=open(os.environ.get('PROMPT_TMPL','/tmp/mutants/PROMPT.tmpl')).read()
for k,v in (('@WT@',wt),('@ID@',pid+tag),('@TITLE@',p['title']),('@STATEMENT@',p['statement']),('@QUANT@',p['quantifier']['text']),('@FILES@',', '.join(p['anchors']['files'])),('@N@',n)):
    t=t.replace(k,v)
print(t)
