#!/usr/bin/env python3
"""Regenerates /verif/MANIFEST.json from the table below (claimed checks = modules present)."""
import json, os, sys
V = os.path.dirname(os.path.dirname(os.path.abspath(__file__)))
PY = "PYTHONHASHSEED=0 /venv/bin/python -m hmsmc"
T = {
 "C01": ("bounded exhaustive exploration of real runs and single operator steps with adversarial in-support RNG answers; box membership of every invoked point", "6 C01"),
 "C02": ("bounded exhaustive exploration of real runs; pure re-evaluation of every stored individual and byte digests of recorded generations at every later boundary", "6 C02"),
 "C03": ("exhaustive enumeration of every consult point of every world and of every budget N; counters vs recorder", "6 C03"),
 "C04": ("exhaustive enumeration of every boundary of every world, both directions, all budget pairs; brute-force best over histories", "6 C04"),
 "C05": ("stateless exploration of the real run(): every consult index k enumerated as the first-true point of the global condition (one G deviation = complete), all shipped conditions undeviated with reference verdicts, every evaluation limit N swept over its whole range, evaluations counted from the call that crosses the limit", "6 C05"),
 "C06": ("deviation-bounded exploration over G/L/S choices (complete for small worlds); per-deme lifecycle automaton checked at every boundary and consult", "6 C06"),
 "C07": ("deviation-bounded exploration over sprout/stop histories; structural tree invariants and seed provenance at every boundary and round", "6 C07"),
 "C08": ("deviation-bounded exploration over scripted candidate counts, LSC verdicts; active-deme census at every consult and around every round", "6 C08"),
 "C09": ("exploration of real runs (every round, every boundary) + exact lattice cases for the strict threshold", "6 C09"),
 "C10": ("complete enumeration of weak orderings of <=5 candidates x parents x occupancy x limits x direction x chain order against a reference specification", "6 C10"),
 "C11": ("exploration of real runs incl. identity-revealing RNG answers; history joined with per-deme call sequence; ask/tell protocol of CMA-ES observed at a library seam; DE donors enumerated over all triples", "6 C11"),
 "C12": ("exploration of real runs and single engine steps on tie/plateau populations under the RNG answer menu", "6 C12"),
 "C13": ("self-composition: twin executions on (f,max)/(-f,min), decision level and whole runs, exhaustively over the alphabets", "6 C13"),
 "C14": ("twin executions across prior RNG states, processes and hash seeds for every engine mix; identical tree digests", "6 C14"),
 "C15": ("complete enumeration of lattice populations x fitness weak orderings x factors against an O(n^2) reference + metamorphic relations", "6 C15"),
 "C16": ("complete enumeration of wrapper stacks x call sequences against a reference model compared after every call", "6 C16"),
 "C17": ("complete enumeration over box x input alphabets (face/ulp/multiple-of-range) for the three repair methods; exact rational congruence oracle", "6 C17"),
 "C18": ("deviation-bounded exploration over G/L/S choices with hibernation on/off; expected flags from the sprout probe, frozen sleepers, progress", "6 C18"),
 "C19": ("every metaepoch boundary of every world enumerated as the snapshot point; dump/load digests, RNG untouched, monitors on the continued loaded tree, restored vs live continuation from identical generator states, second load of every snapshot", "6 C19"),
 "C20": ("every boundary of every world: parsed reports vs attributes; purity and idempotence of accessors", "6 C20"),
}
NOTE = "trusted base: the harness (hmsmc) itself, CPython/NumPy/SciPy/cma of this image; alphabets and bounds of DESIGN.md section 4; floating-point behaviour of this platform"
checks=[]; na=[]
for pid,(tech,ref) in sorted(T.items()):
    if os.path.exists(os.path.join(V,"hmsmc","checks",pid.lower()+".py")):
        checks.append({
          "property_id": pid,
          "quick_cmd": f"{PY} check {pid} --tier quick",
          "thorough_cmd": f"{PY} check {pid} --tier thorough",
          "evidence_file": f"/verif/evidence/{pid}.json",
          "replay_cmd_template": f"{PY} replay {{path}}",
          "engine": "hmsmc",
          "level_claimed": {"category":"model_checking","text": f"Within the stated alphabets and deviation bounds every execution of the REAL pyhms code is enumerated and the oracle is evaluated in every probed state; the evidence reports states, transitions, executions and the bound completed. {tech}.", "design_ref": f"DESIGN.md section {ref}"},
          "level_note": NOTE,
          "technique": "model checking: " + tech + "; additionally single undeviated runs of the worlds beyond the small scope (hmsmc/scale.py, DESIGN.md 11.8) under the same oracles - those are not an exhaustive exploration",
        })
    else:
        na.append({"property_id": pid, "reason": "check not built yet in this revision of /verif (planned, see DESIGN.md section 6); not a statement that the technique cannot apply"})
m={
 "version":1,
 "setup_cmd": f"{PY} selftest",
 "hooks": {"guard":"PYHMS_VERIF","enable":"no source hooks: every seam is a user-supplied component or a module attribute patched from the harness process","baseline_off_cmd":"cd /repo && /venv/bin/python -m pytest -ra -q -p no:cacheprovider --timeout=900 --continue-on-collection-errors","source_commits":[],"add_only":True},
 "engines":[{"name":"hmsmc","path":"/verif/hmsmc","serves_properties":[c["property_id"] for c in checks],"kind_free_text":"hand-written stateless, deviation-bounded explicit explorer over the real pyhms code (Python); reference oracles in hmsmc/ref"}],
 "checks":checks,
 "notes":"All checks run the real code from /repo's working tree (sys.path + editable install). VERIF_SEED selects PRNG seeds of the worlds; no oracle contains a golden value.",
 "not_applicable":na,
}
json.dump(m,open(os.path.join(V,"MANIFEST.json"),"w"),indent=1); print(len(checks),"checks claimed;",len(na),"not yet")
