#!/usr/bin/env python3
"""usage: record_fix.py <property> <signature-regex> <what failed>   (records /repo HEAD as the fixing commit)"""
import json,subprocess,sys,os
V=os.path.dirname(os.path.dirname(os.path.abspath(__file__)))
prop,sig,what=sys.argv[1],sys.argv[2],sys.argv[3]
sha=subprocess.check_output(['git','-C','/repo','rev-parse','--short','HEAD']).decode().strip()
p=os.path.join(V,'known_findings.json'); k=json.load(open(p))
k['findings'].append({"property":prop,"status":"fixed","commit":sha,"signature":sig,"what":what,"line":f"fixed: property={prop} {sha} {what}"})
json.dump(k,open(p,'w'),indent=1); print("recorded",prop,sha)
